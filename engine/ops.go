package main

import (
	"fmt"
	"go/token"
	"go/types"
	"math"

	"golang.org/x/tools/go/ssa"
)

func (ex *Exec) binop(st *State, op token.Token, a, b Value, ta, tb types.Type) Value {
	ts := ex.ts
	switch av := a.(type) {
	case *Term:
		bv, ok := b.(*Term)
		if !ok {
			panic(unsupported(fmt.Sprintf("binop %s on scalar and %T", op, b)))
		}
		if isFloat(ta) {
			return ex.floatOp(op, av, bv)
		}
		if av.W == 0 {
			switch op {
			case token.EQL:
				return ts.Eq(av, bv)
			case token.NEQ:
				return ts.BNot(ts.Eq(av, bv))
			case token.AND, token.LAND:
				return ts.BAnd(av, bv)
			case token.OR, token.LOR:
				return ts.BOr(av, bv)
			}
			panic(unsupported("bool binop " + op.String()))
		}
		signed := isSigned(ta)
		switch op {
		case token.ADD:
			return ts.Add(av, bv)
		case token.SUB:
			return ts.Sub(av, bv)
		case token.MUL:
			return ts.Mul(av, bv)
		case token.QUO, token.REM:
			ex.check(st, ts.Eq(bv, ts.Const(bv.W, 0)), "panic", "integer divide by zero")
			if signed {
				if op == token.QUO {
					return ts.SDiv(av, bv)
				}
				return ts.SRem(av, bv)
			}
			if op == token.QUO {
				return ts.UDiv(av, bv)
			}
			return ts.URem(av, bv)
		case token.AND:
			return ts.And(av, bv)
		case token.OR:
			return ts.Or(av, bv)
		case token.XOR:
			return ts.Xor(av, bv)
		case token.AND_NOT:
			return ts.And(av, ts.Not(bv))
		case token.SHL, token.SHR:
			if isSigned(tb) {
				ex.check(st, ts.Slt(bv, ts.Const(bv.W, 0)), "panic", "negative shift amount")
			}
			amt := ex.shiftAmt(bv, av.W)
			if op == token.SHL {
				return ts.Shl(av, amt)
			}
			if signed {
				return ts.AShr(av, amt)
			}
			return ts.LShr(av, amt)
		case token.EQL:
			return ts.Eq(av, bv)
		case token.NEQ:
			return ts.BNot(ts.Eq(av, bv))
		case token.LSS:
			if signed {
				return ts.Slt(av, bv)
			}
			return ts.Ult(av, bv)
		case token.LEQ:
			if signed {
				return ts.Sle(av, bv)
			}
			return ts.Ule(av, bv)
		case token.GTR:
			if signed {
				return ts.Slt(bv, av)
			}
			return ts.Ult(bv, av)
		case token.GEQ:
			if signed {
				return ts.Sle(bv, av)
			}
			return ts.Ule(bv, av)
		}
		panic(unsupported("int binop " + op.String()))
	case StrV:
		bv := b.(StrV)
		switch op {
		case token.ADD:
			return ex.strConcat(st, av, bv)
		case token.EQL:
			return ex.strEq(st, av, bv)
		case token.NEQ:
			return ts.BNot(ex.strEq(st, av, bv))
		}
		// ordering: concrete only
		sa, ok1 := ex.concreteStr(st, av)
		sb, ok2 := ex.concreteStr(st, bv)
		if ok1 && ok2 {
			switch op {
			case token.LSS:
				return ts.Bool(sa < sb)
			case token.LEQ:
				return ts.Bool(sa <= sb)
			case token.GTR:
				return ts.Bool(sa > sb)
			case token.GEQ:
				return ts.Bool(sa >= sb)
			}
		}
		panic(unsupported("symbolic string ordering"))
	default:
		switch op {
		case token.EQL:
			return ex.valueEq(st, a, b)
		case token.NEQ:
			return ts.BNot(ex.valueEq(st, a, b))
		}
	}
	panic(unsupported(fmt.Sprintf("binop %s on %T", op, a)))
}

// shiftAmt converts a shift count to width w, saturating at w.
func (ex *Exec) shiftAmt(b *Term, w uint8) *Term {
	ts := ex.ts
	if b.W == w {
		return b
	}
	if b.W < w {
		return ts.ZExt(b, w)
	}
	big := ts.Ule(ts.Const(b.W, uint64(w)), b)
	return ts.Ite(big, ts.Const(w, uint64(w)), ts.Extract(b, 0, w))
}

func (ex *Exec) floatOp(op token.Token, a, b *Term) Value {
	ts := ex.ts
	if op == token.EQL && a == b {
		// x == x is false only for NaN; keep symbolic semantics out of scope
	}
	if a.Op != OConst || b.Op != OConst {
		panic(unsupported("symbolic float arithmetic"))
	}
	x, y := floatOf(a), floatOf(b)
	mk := func(f float64) *Term {
		if a.W == 32 {
			return ts.Const(32, uint64(math.Float32bits(float32(f))))
		}
		return ts.Const(64, math.Float64bits(f))
	}
	switch op {
	case token.ADD:
		return mk(x + y)
	case token.SUB:
		return mk(x - y)
	case token.MUL:
		return mk(x * y)
	case token.QUO:
		return mk(x / y)
	case token.EQL:
		return ts.Bool(x == y)
	case token.NEQ:
		return ts.Bool(x != y)
	case token.LSS:
		return ts.Bool(x < y)
	case token.LEQ:
		return ts.Bool(x <= y)
	case token.GTR:
		return ts.Bool(x > y)
	case token.GEQ:
		return ts.Bool(x >= y)
	}
	panic(unsupported("float op " + op.String()))
}

// ---------------------------------------------------------------- strings

func (ex *Exec) strByte(st *State, s StrV, i uint64) *Term {
	o := ex.obj(st, s.Obj)
	return ex.ts.Select(o.arr, ex.ts.Add(s.Off, ex.ts.Const(64, i)))
}

const strEqLimit = 300

// strEq builds an exact equality condition. At least one length must be (made) concrete.
func (ex *Exec) strEq(st *State, a, b StrV) *Term {
	ts := ex.ts
	if a.Len.Op != OConst && b.Len.Op == OConst {
		a, b = b, a
	}
	if a.Len.Op != OConst {
		// both symbolic: if they are the same memory, equal
		if a.Obj == b.Obj && a.Off == b.Off && a.Len == b.Len {
			return ts.True
		}
		a.Len = ts.Const(64, ex.concretize(st, a.Len, 64, "string length in comparison"))
	}
	n := a.Len.K
	if b.Len.Op == OConst && b.Len.K != n {
		return ts.False
	}
	if n > strEqLimit {
		if a.Obj == b.Obj && a.Off == b.Off {
			return ts.Eq(a.Len, b.Len)
		}
		panic(unsupported("comparison of long strings in branch position"))
	}
	r := ts.Eq(a.Len, b.Len)
	if r.IsFalse() {
		return r
	}
	if a.Obj == b.Obj && a.Off == b.Off {
		return r
	}
	for i := uint64(0); i < n; i++ {
		r = ts.BAnd(r, ts.Eq(ex.strByte(st, a, i), ex.strByte(st, b, i)))
		if r.IsFalse() {
			return r
		}
	}
	return r
}

func (ex *Exec) strConcat(st *State, a, b StrV) Value {
	ts := ex.ts
	if a.Len.Op == OConst && a.Len.K == 0 {
		return b
	}
	if b.Len.Op == OConst && b.Len.K == 0 {
		return a
	}
	arr := ts.FillArr(ts.Const(8, 0))
	if a.Obj != 0 {
		arr = ts.Copy(arr, ts.Const(64, 0), ex.obj(st, a.Obj).arr, a.Off, a.Len)
	}
	if b.Obj != 0 {
		arr = ts.Copy(arr, a.Len, ex.obj(st, b.Obj).arr, b.Off, b.Len)
	}
	n := ts.Add(a.Len, b.Len)
	id := ex.newBytesObj(st, arr, n, nil)
	o := ex.obj(st, id)
	o.readonly = true
	o.tag = "string data"
	return StrV{Obj: id, Off: ts.Const(64, 0), Len: n}
}

// ---------------------------------------------------------------- equality of values

func (ex *Exec) ptrEq(a, b PtrV) *Term {
	ts := ex.ts
	if a.Obj != b.Obj {
		return ts.False
	}
	if a.Obj == 0 {
		return ts.True
	}
	if len(a.Path) != len(b.Path) {
		return ts.False
	}
	for i := range a.Path {
		if a.Path[i] != b.Path[i] {
			return ts.False
		}
	}
	if a.Off != nil && b.Off != nil {
		return ts.Eq(a.Off, b.Off)
	}
	return ts.True
}

func (ex *Exec) valueEq(st *State, a, b Value) *Term {
	ts := ex.ts
	switch av := a.(type) {
	case *Term:
		return ts.Eq(av, b.(*Term))
	case StrV:
		return ex.strEq(st, av, b.(StrV))
	case PtrV:
		return ex.ptrEq(av, b.(PtrV))
	case MapV:
		bv := b.(MapV)
		return ts.Bool(av.Obj == bv.Obj)
	case SliceV:
		bv := b.(SliceV)
		if av.Obj == 0 || bv.Obj == 0 { // comparison with nil
			return ts.Bool(av.Obj == bv.Obj)
		}
		panic(unsupported("slice comparison"))
	case FuncV:
		bv := b.(FuncV)
		if av.Fn == nil || bv.Fn == nil {
			return ts.Bool(av.Fn == bv.Fn)
		}
		panic(unsupported("func comparison"))
	case IfaceV:
		bv, ok := b.(IfaceV)
		if !ok {
			panic(unsupported("interface compared with non-interface"))
		}
		if av.T == nil || bv.T == nil {
			return ts.Bool(av.T == nil && bv.T == nil)
		}
		if !types.Identical(av.T, bv.T) {
			return ts.False
		}
		if !types.Comparable(av.T) {
			ex.check(st, ts.True, "panic", "comparing uncomparable type "+av.T.String())
		}
		return ex.valueEq(st, av.V, bv.V)
	case StructV:
		bv := b.(StructV)
		r := ts.True
		for i := range av {
			r = ts.BAnd(r, ex.valueEq(st, av[i], bv[i]))
		}
		return r
	case ArrayV:
		bv := b.(ArrayV)
		r := ts.True
		for i := range av {
			r = ts.BAnd(r, ex.valueEq(st, av[i], bv[i]))
		}
		return r
	case OpaqueV:
		if bo, ok := b.(OpaqueV); ok {
			return ts.Bool(av.What == bo.What)
		}
	}
	panic(unsupported(fmt.Sprintf("equality on %T", a)))
}

// ---------------------------------------------------------------- maps

// choose picks one of n alternatives nondeterministically (all are explored).
func (ex *Exec) choose(st *State, n int) int {
	if n <= 1 {
		return 0
	}
	k := len(st.taken)
	if k < len(st.forced) {
		i := st.forced[k]
		st.taken = append(st.taken, i)
		st.decisions = append(st.decisions, i)
		return i
	}
	for i := 1; i < n; i++ {
		c := st.clone()
		c.forced = append(append([]int(nil), st.taken...), i)
		c.taken = nil
		ex.work = append(ex.work, c)
		ex.stats.Forks++
	}
	st.taken = append(st.taken, 0)
	st.decisions = append(st.decisions, 0)
	return 0
}

// mapFind forks on which existing key (if any) equals key. Returns the index or -1.
func (ex *Exec) mapFind(st *State, o *Object, key Value) int {
	ts := ex.ts
	n := len(o.mkeys)
	if n == 0 {
		return -1
	}
	conds := make([]*Term, n+1)
	none := ts.True
	for i, k := range o.mkeys {
		e := ex.valueEq(st, key, k)
		conds[i] = e
		none = ts.BAnd(none, ts.BNot(e))
	}
	conds[n] = none
	i := ex.fork(st, conds, true)
	if i == n {
		return -1
	}
	return i
}

func (ex *Exec) mapLookup(st *State, m MapV, key Value, elemT types.Type) (Value, *Term) {
	if m.Obj == 0 {
		return ex.zero(elemT), ex.ts.False
	}
	o := ex.obj(st, m.Obj)
	i := ex.mapFind(st, o, key)
	if i < 0 {
		return ex.zero(elemT), ex.ts.False
	}
	return o.mvals[i], ex.ts.True
}

func (ex *Exec) mapUpdate(st *State, m MapV, key, val Value) {
	if m.Obj == 0 {
		ex.check(st, ex.ts.True, "panic", "assignment to entry in nil map")
	}
	i := ex.mapFind(st, ex.obj(st, m.Obj), key)
	o := ex.objW(st, m.Obj)
	if i < 0 {
		o.mkeys = append(o.mkeys, key)
		o.mvals = append(o.mvals, val)
	} else {
		o.mvals[i] = val
	}
}

func (ex *Exec) mapDelete(st *State, m MapV, key Value) {
	if m.Obj == 0 {
		return
	}
	i := ex.mapFind(st, ex.obj(st, m.Obj), key)
	if i < 0 {
		return
	}
	o := ex.objW(st, m.Obj)
	o.mkeys = append(append([]Value(nil), o.mkeys[:i]...), o.mkeys[i+1:]...)
	o.mvals = append(append([]Value(nil), o.mvals[:i]...), o.mvals[i+1:]...)
}

var perms3 = [][]int{{0, 1, 2}, {0, 2, 1}, {1, 0, 2}, {1, 2, 0}, {2, 0, 1}, {2, 1, 0}}

func (ex *Exec) mapRange(st *State, m MapV) Value {
	if m.Obj == 0 {
		return RangeV{}
	}
	o := ex.obj(st, m.Obj)
	n := len(o.mkeys)
	keys := append([]Value(nil), o.mkeys...)
	vals := append([]Value(nil), o.mvals...)
	if ex.mapOrders && !ex.initMode {
		switch n {
		case 2:
			if ex.choose(st, 2) == 1 {
				keys[0], keys[1] = keys[1], keys[0]
				vals[0], vals[1] = vals[1], vals[0]
			}
		case 3:
			p := perms3[ex.choose(st, 6)]
			keys = []Value{o.mkeys[p[0]], o.mkeys[p[1]], o.mkeys[p[2]]}
			vals = []Value{o.mvals[p[0]], o.mvals[p[1]], o.mvals[p[2]]}
		}
	}
	return RangeV{Keys: keys, Vals: vals}
}

// ---------------------------------------------------------------- builtins

func (ex *Exec) lenOf(st *State, v Value, t types.Type) *Term {
	ts := ex.ts
	switch x := v.(type) {
	case SliceV:
		return x.Len
	case StrV:
		return x.Len
	case MapV:
		if x.Obj == 0 {
			return ts.Const(64, 0)
		}
		return ts.Const(64, uint64(len(ex.obj(st, x.Obj).mkeys)))
	case ArrayV:
		return ts.Const(64, uint64(len(x)))
	case PtrV:
		if at, ok := t.Underlying().(*types.Pointer); ok {
			if a, ok := at.Elem().Underlying().(*types.Array); ok {
				return ts.Const(64, uint64(a.Len()))
			}
		}
	}
	panic(unsupported(fmt.Sprintf("len of %T", v)))
}

func (ex *Exec) builtin(st *State, fr *Frame, name string, args []Value, c *ssa.CallCommon) Value {
	ts := ex.ts
	switch name {
	case "len":
		return ex.lenOf(st, args[0], c.Args[0].Type())
	case "cap":
		switch x := args[0].(type) {
		case SliceV:
			return x.Cap
		}
		return ex.lenOf(st, args[0], c.Args[0].Type())
	case "append":
		return ex.appendOp(st, args[0].(SliceV), args[1], c.Args[0].Type())
	case "copy":
		return ex.copyOp(st, args[0].(SliceV), args[1])
	case "delete":
		ex.mapDelete(st, args[0].(MapV), args[1])
		return TupleV{}
	case "min", "max":
		r := ex.term(args[0])
		signed := isSigned(c.Args[0].Type())
		for _, a := range args[1:] {
			t := ex.term(a)
			var lt *Term
			if signed {
				lt = ts.Slt(t, r)
			} else {
				lt = ts.Ult(t, r)
			}
			if name == "max" {
				lt = ts.BNot(lt)
			}
			r = ts.Ite(lt, t, r)
		}
		return r
	case "print", "println":
		return TupleV{}
	case "recover":
		return IfaceV{}
	case "Add": // unsafe.Add
		p := args[0].(PtrV)
		n := ex.toInt(ex.term(args[1]), c.Args[1].Type())
		if p.IsNil() {
			panic(unsupported("unsafe.Add on nil"))
		}
		if p.Off == nil {
			panic(unsupported("unsafe.Add on cell pointer"))
		}
		return PtrV{Obj: p.Obj, Off: ts.Add(p.Off, n)}
	case "Slice": // unsafe.Slice(ptr, n)
		p := args[0].(PtrV)
		n := ex.toInt(ex.term(args[1]), c.Args[1].Type())
		ex.check(st, ts.Slt(n, ts.Const(64, 0)), "panic", "unsafe.Slice: len out of range")
		if p.IsNil() {
			ex.check(st, ts.BNot(ts.Eq(n, ts.Const(64, 0))), "panic", "unsafe.Slice: ptr is nil and len is not zero")
			return SliceV{Off: ts.Const(64, 0), Len: ts.Const(64, 0), Cap: ts.Const(64, 0)}
		}
		if p.Off == nil {
			panic(unsupported("unsafe.Slice on cell pointer"))
		}
		return SliceV{Obj: p.Obj, Off: p.Off, Len: n, Cap: n}
	case "SliceData":
		s := args[0].(SliceV)
		if s.Obj == 0 {
			return PtrV{}
		}
		if ex.obj(st, s.Obj).kind != KBytes {
			panic(unsupported("unsafe.SliceData of non-byte slice"))
		}
		return PtrV{Obj: s.Obj, Off: s.Off}
	case "String":
		p := args[0].(PtrV)
		n := ex.toInt(ex.term(args[1]), c.Args[1].Type())
		ex.check(st, ts.Slt(n, ts.Const(64, 0)), "panic", "unsafe.String: len out of range")
		if p.IsNil() {
			ex.check(st, ts.BNot(ts.Eq(n, ts.Const(64, 0))), "panic", "unsafe.String: ptr is nil and len is not zero")
			return StrV{Off: ts.Const(64, 0), Len: ts.Const(64, 0)}
		}
		return StrV{Obj: p.Obj, Off: p.Off, Len: n}
	case "StringData":
		s := args[0].(StrV)
		if s.Obj == 0 {
			return PtrV{}
		}
		return PtrV{Obj: s.Obj, Off: s.Off}
	}
	panic(unsupported("builtin " + name))
}

func (ex *Exec) appendOp(st *State, s SliceV, more Value, sliceT types.Type) Value {
	ts := ex.ts
	elem := sliceT.Underlying().(*types.Slice).Elem()
	if isByteElem(elem) {
		var srcObj int
		var srcOff, n *Term
		switch m := more.(type) {
		case SliceV:
			srcObj, srcOff, n = m.Obj, m.Off, m.Len
		case StrV:
			srcObj, srcOff, n = m.Obj, m.Off, m.Len
		default:
			panic(unsupported(fmt.Sprintf("append of %T", more)))
		}
		if n.Op == OConst && n.K == 0 {
			return s
		}
		newLen := ts.Add(s.Len, n)
		fits := ts.Ule(newLen, s.Cap)
		var srcArr *Arr
		if srcObj != 0 {
			so := ex.obj(st, srcObj)
			ex.checkLive(st, so, "append source read")
			srcArr = so.arr
		} else {
			srcArr = ts.FillArr(ts.Const(8, 0))
		}
		if s.Obj != 0 && ex.decide(st, fits) {
			o := ex.obj(st, s.Obj)
			ex.checkLive(st, o, "append")
			if o.readonly {
				ex.check(st, ts.BNot(ts.Eq(n, ts.Const(64, 0))), "ownership", "append writes into caller-owned/read-only memory ("+o.tag+")")
			}
			ow := ex.objW(st, s.Obj)
			ow.arr = ts.Copy(ow.arr, ts.Add(s.Off, s.Len), srcArr, srcOff, n)
			return SliceV{Obj: s.Obj, Path: s.Path, Off: s.Off, Len: newLen, Cap: s.Cap}
		}
		if s.Obj == 0 {
			// nil slice: always reallocate (when n == 0 the result is the nil slice)
			if !ex.decide(st, ts.BNot(ts.Eq(n, ts.Const(64, 0)))) {
				return s
			}
		}
		arr := ts.FillArr(ts.Const(8, 0))
		if s.Obj != 0 {
			o := ex.obj(st, s.Obj)
			ex.checkLive(st, o, "append")
			arr = ts.Copy(arr, ts.Const(64, 0), o.arr, s.Off, s.Len)
		}
		arr = ts.Copy(arr, s.Len, srcArr, srcOff, n)
		id := ex.newBytesObj(st, arr, newLen, sliceT)
		return SliceV{Obj: id, Off: ts.Const(64, 0), Len: newLen, Cap: newLen}
	}
	// cell slices: concrete lengths
	m, ok := more.(SliceV)
	if !ok {
		panic(unsupported(fmt.Sprintf("append of %T to cell slice", more)))
	}
	n := ex.concretize(st, m.Len, 64, "append count")
	if n == 0 {
		return s
	}
	sl := ex.concretize(st, s.Len, 4096, "append base length")
	sc := ex.concretize(st, s.Cap, 4096, "append base cap")
	vals := make([]Value, n)
	if m.Obj != 0 {
		mo := ex.obj(st, m.Obj)
		mOff := ex.concretize(st, m.Off, 4096, "append src offset")
		arrCell := ex.cellByPath(st, mo, m.Path)
		for i := uint64(0); i < n; i++ {
			vals[i] = ex.cellLoad(ex.cellAt(arrCell, int64(mOff+i)))
		}
	}
	if s.Obj != 0 && sl+n <= sc {
		off := ex.concretize(st, s.Off, 4096, "append dst offset")
		ow := ex.objW(st, s.Obj)
		arrCell := ex.cellByPath(st, ow, s.Path)
		for i := uint64(0); i < n; i++ {
			ex.cellStore(ex.cellAt(arrCell, int64(off+sl+i)), vals[i])
		}
		return SliceV{Obj: s.Obj, Path: s.Path, Off: s.Off, Len: ts.Const(64, sl+n), Cap: s.Cap}
	}
	nc := sl + n
	if nc < 2*sc {
		nc = 2 * sc
	}
	root := &Cell{kids: make([]*Cell, nc), isArr: true, elemT: elem}
	for i := range root.kids {
		root.kids[i] = ex.newCell(elem)
	}
	if s.Obj != 0 {
		so := ex.obj(st, s.Obj)
		off := ex.concretize(st, s.Off, 4096, "append dst offset")
		arrCell := ex.cellByPath(st, so, s.Path)
		for i := uint64(0); i < sl; i++ {
			ex.cellStore(root.kids[i], ex.cellLoad(ex.cellAt(arrCell, int64(off+i))))
		}
	}
	for i := uint64(0); i < n; i++ {
		ex.cellStore(root.kids[sl+i], vals[i])
	}
	id := ex.addObj(st, &Object{kind: KCells, root: root, typ: sliceT})
	return SliceV{Obj: id, Off: ts.Const(64, 0), Len: ts.Const(64, sl+n), Cap: ts.Const(64, nc)}
}

func (ex *Exec) copyOp(st *State, dst SliceV, src Value) Value {
	ts := ex.ts
	var srcObj int
	var srcOff, srcLen *Term
	var srcPath []int32
	switch m := src.(type) {
	case SliceV:
		srcObj, srcOff, srcLen, srcPath = m.Obj, m.Off, m.Len, m.Path
	case StrV:
		srcObj, srcOff, srcLen = m.Obj, m.Off, m.Len
	default:
		panic(unsupported(fmt.Sprintf("copy from %T", src)))
	}
	n := ts.Ite(ts.Ult(srcLen, dst.Len), srcLen, dst.Len)
	if n.Op != OConst {
		if ex.implies(st, ts.Ule(srcLen, dst.Len)) {
			n = srcLen
		} else if ex.implies(st, ts.Ule(dst.Len, srcLen)) {
			n = dst.Len
		}
	}
	if n.Op == OConst && n.K == 0 {
		return n
	}
	if dst.Obj == 0 || srcObj == 0 {
		return ts.Const(64, 0)
	}
	do := ex.obj(st, dst.Obj)
	so := ex.obj(st, srcObj)
	ex.checkLive(st, do, "copy destination write")
	ex.checkLive(st, so, "copy source read")
	if do.kind == KBytes {
		if so.kind != KBytes {
			panic(unsupported("copy between byte and cell memory"))
		}
		if do.readonly {
			ex.check(st, ts.BNot(ts.Eq(n, ts.Const(64, 0))), "ownership", "copy writes into caller-owned/read-only memory ("+do.tag+")")
		}
		srcArr := so.arr
		ow := ex.objW(st, dst.Obj)
		ow.arr = ts.Copy(ow.arr, dst.Off, srcArr, srcOff, n)
		return n
	}
	k := ex.concretize(st, n, 4096, "copy count")
	dOff := ex.concretize(st, dst.Off, 4096, "copy dst offset")
	sOff := ex.concretize(st, srcOff, 4096, "copy src offset")
	vals := make([]Value, k)
	sc := ex.cellByPath(st, so, srcPath)
	for i := uint64(0); i < k; i++ {
		vals[i] = ex.cellLoad(ex.cellAt(sc, int64(sOff+i)))
	}
	ow := ex.objW(st, dst.Obj)
	dc := ex.cellByPath(st, ow, dst.Path)
	for i := uint64(0); i < k; i++ {
		ex.cellStore(ex.cellAt(dc, int64(dOff+i)), vals[i])
	}
	return ts.Const(64, k)
}
