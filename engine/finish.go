package main

import (
	"bytes"
	"context"
	"crypto/sha1"
	"encoding/json"
	"fmt"
	"os"
	"os/exec"
	"path/filepath"
	"sort"
	"strings"
	"time"
)

type ReplayFile struct {
	Property string         `json:"property"`
	Harness  string         `json:"harness"`
	Pkg      string         `json:"pkg"`
	Params   map[string]int `json:"params"`
	Draws    []DrawVal      `json:"draws"`
	Expect   string         `json:"expect"`
	Kind     string         `json:"kind"`
	Msg      string         `json:"msg"`
	Site     string         `json:"site"`
	Stack    []string       `json:"stack,omitempty"`
	NativeObservable bool   `json:"native_observable"`
	Dirty            bool   `json:"reads_uninitialised_memory,omitempty"`
	HashDep          bool   `json:"depends_on_hash_collision,omitempty"`
}

type KnownFinding struct {
	Property string `json:"property"`
	Harness  string `json:"harness,omitempty"`
	Kind     string `json:"kind,omitempty"`
	Msg      string `json:"msg_contains,omitempty"`
	Site     string `json:"site_contains,omitempty"`
	What     string `json:"what"`
	Commit   string `json:"commit,omitempty"`
	// When pins the finding to the specific failing input: "param:<name>" / "draw:<name>" -> value
	When map[string]int64 `json:"when,omitempty"`
}

type KnownFile struct {
	Open  []KnownFinding `json:"open"`
	Fixed []KnownFinding `json:"fixed"`
}

func loadKnown() KnownFile {
	var kf KnownFile
	b, err := os.ReadFile(filepath.Join(verifRoot(), "known_findings.json"))
	if err == nil {
		json.Unmarshal(b, &kf)
	}
	return kf
}

func (k *KnownFinding) matches(prop string, v *Violation, params map[string]int) bool {
	if k.Property != prop {
		return false
	}
	for key, want := range k.When {
		switch {
		case strings.HasPrefix(key, "param:"):
			if got, ok := params[strings.TrimPrefix(key, "param:")]; !ok || int64(got) != want {
				return false
			}
		case strings.HasPrefix(key, "draw:"):
			found := false
			for _, d := range v.Draws {
				if d.Name == strings.TrimPrefix(key, "draw:") {
					found = true
					val := int64(d.Val)
					if d.Kind == "bytes" {
						val = int64(d.Len)
					}
					if val != want {
						return false
					}
					break
				}
			}
			if !found {
				return false
			}
		default:
			return false
		}
	}
	if k.Harness != "" && k.Harness != v.Harness {
		return false
	}
	if k.Kind != "" && k.Kind != v.Kind {
		return false
	}
	if k.Msg != "" && !strings.Contains(v.Msg, k.Msg) {
		return false
	}
	if k.Site != "" && !strings.Contains(v.Site, k.Site) {
		return false
	}
	return true
}

// ---------------------------------------------------------------- native replay

type nativeBuilder struct {
	tmp  string
	bins map[string]string
	errs map[string]string
}

func newNativeBuilder() (*nativeBuilder, error) {
	tmp, err := os.MkdirTemp("", "vcheck-native-")
	if err != nil {
		return nil, err
	}
	return &nativeBuilder{tmp: tmp, bins: map[string]string{}, errs: map[string]string{}}, nil
}

func (nb *nativeBuilder) Close() { os.RemoveAll(nb.tmp) }

func goEnv() []string {
	return append(os.Environ(), "GOFLAGS=-mod=mod", "GOPROXY=off", "GOSUMDB=off", "GOTOOLCHAIN=local")
}

// testBinary builds (once) the test binary of the package with the native harness runtime overlaid.
func (nb *nativeBuilder) testBinary(rel string) (string, error) {
	if b, ok := nb.bins[rel]; ok {
		if b == "" {
			return "", fmt.Errorf("%s", nb.errs[rel])
		}
		return b, nil
	}
	ov, _, err := buildOverlay(true, []string{rel})
	if err != nil {
		return "", err
	}
	repl := map[string]string{}
	i := 0
	for virt, content := range ov {
		i++
		real := filepath.Join(nb.tmp, fmt.Sprintf("ov%d_%s_%s", i, strings.ReplaceAll(rel, "/", "_"), filepath.Base(virt)))
		if err := os.WriteFile(real, content, 0o644); err != nil {
			return "", err
		}
		repl[virt] = real
	}
	ovb, _ := json.Marshal(map[string]interface{}{"Replace": repl})
	ovPath := filepath.Join(nb.tmp, "overlay_"+strings.ReplaceAll(rel, "/", "_")+".json")
	os.WriteFile(ovPath, ovb, 0o644)
	bin := filepath.Join(nb.tmp, strings.ReplaceAll(rel, "/", "_")+".test")
	ctx, cancel := context.WithTimeout(context.Background(), 10*time.Minute)
	defer cancel()
	cmd := exec.CommandContext(ctx, "go", "test", "-c", "-vet=off", "-tags", "verif", "-overlay", ovPath, "-o", bin, "./"+rel)
	cmd.Dir = repoRoot
	cmd.Env = goEnv()
	out, err := cmd.CombinedOutput()
	if err != nil {
		nb.bins[rel] = ""
		nb.errs[rel] = fmt.Sprintf("native build failed: %v\n%s", err, out)
		return "", fmt.Errorf("%s", nb.errs[rel])
	}
	nb.bins[rel] = bin
	return bin, nil
}

type nativeOutcome struct {
	Outcome string // ok, fail, panic, abort, crash
	Fails   []string
	Panic   string
	Obs     []string
	Draws   []DrawVal
	Raw     string
}

func (nb *nativeBuilder) run(rel string, env []string) (*nativeOutcome, error) {
	bin, err := nb.testBinary(rel)
	if err != nil {
		return nil, err
	}
	ctx, cancel := context.WithTimeout(context.Background(), 2*time.Minute)
	defer cancel()
	cmd := exec.CommandContext(ctx, bin, "-test.run", "^TestZZReplay$", "-test.count=1")
	cmd.Dir = filepath.Join(repoRoot, rel)
	cmd.Env = append(os.Environ(), env...)
	var out bytes.Buffer
	cmd.Stdout = &out
	cmd.Stderr = &out
	cmd.Run()
	o := &nativeOutcome{Raw: out.String(), Outcome: "crash"}
	for _, l := range strings.Split(out.String(), "\n") {
		switch {
		case strings.HasPrefix(l, "ZZFAIL "):
			o.Fails = append(o.Fails, strings.TrimPrefix(l, "ZZFAIL "))
		case strings.HasPrefix(l, "ZZPANIC "):
			o.Panic = strings.TrimPrefix(l, "ZZPANIC ")
		case strings.HasPrefix(l, "ZZOUTCOME "):
			o.Outcome = strings.Fields(l)[1]
		case strings.HasPrefix(l, "ZZOBS "):
			o.Obs = append(o.Obs, strings.TrimPrefix(l, "ZZOBS "))
		case strings.HasPrefix(l, "ZZDRAWS "):
			json.Unmarshal([]byte(strings.TrimPrefix(l, "ZZDRAWS ")), &o.Draws)
		}
	}
	if o.Outcome == "crash" {
		if strings.Contains(o.Raw, "fatal error:") || strings.Contains(o.Raw, "SIGSEGV") || strings.Contains(o.Raw, "panic:") {
			for _, l := range strings.Split(o.Raw, "\n") {
				if strings.HasPrefix(l, "fatal error:") || strings.HasPrefix(l, "panic:") || strings.Contains(l, "unexpected fault address") {
					o.Panic = l
					break
				}
			}
		}
	}
	return o, nil
}

func panicMatches(msg, native string) bool {
	frag := []string{"index out of range", "slice bounds out of range", "divide by zero", "nil pointer", "nil map", "interface conversion", "len out of range", "makeslice"}
	for _, f := range frag {
		if strings.Contains(msg, f) {
			return strings.Contains(native, f) || (f == "nil pointer" && strings.Contains(native, "invalid memory address"))
		}
	}
	if strings.HasPrefix(msg, "panic: ") {
		return strings.Contains(native, strings.TrimPrefix(msg, "panic: "))
	}
	return native != ""
}

// confirm replays the violation natively. Returns (confirmed, observable, detail).
func (nb *nativeBuilder) confirm(rf *ReplayFile, path string) (bool, bool, string) {
	switch rf.Kind {
	case "oob", "uaf", "ownership", "race":
		return false, false, "ghost-state violation (not observable by a native run)"
	}
	var last string
	for try := 0; try < 12; try++ {
		o, err := nb.run(rf.Pkg, []string{"ZZ_REPLAY=" + path})
		if err != nil {
			return false, true, err.Error()
		}
		switch rf.Kind {
		case "assert":
			for _, f := range o.Fails {
				if f == rf.Msg {
					return true, true, "native run failed the same assertion"
				}
			}
		case "panic":
			if (o.Outcome == "panic" || o.Outcome == "crash") && panicMatches(rf.Msg, o.Panic) {
				return true, true, "native run panicked: " + o.Panic
			}
		}
		last = fmt.Sprintf("native outcome=%s fails=%v panic=%q", o.Outcome, o.Fails, o.Panic)
		if o.Outcome == "abort" && len(o.Fails) == 0 {
			break
		}
	}
	if rf.HashDep {
		// the counterexample needs particular hash values (a collision); the real hash of the model's
		// strings under the native random seed is different, so a native run cannot reproduce it
		return false, false, "depends on a hash collision chosen by the solver (native run: " + last + ")"
	}
	if rf.Dirty {
		// the failing condition reads memory that dirtmake/mcache hand out uninitialised; a native run
		// only reproduces it when the heap happens to hold garbage there
		return false, false, "depends on the contents of uninitialised allocator memory (native run: " + last + ")"
	}
	return false, true, last
}

// ---------------------------------------------------------------- finishing a run

func finishRun(prop, tier string, seed int64, specs []*HarnessSpec, units []unit, results []unitResult, loaded *Loaded, loadT time.Duration, t0 time.Time, noReplay bool) int {
	known := loadKnown()
	exit := 0
	inconclusive := []string{}
	// aggregate
	paths := map[string]int{}
	endSites := map[string]int{}
	funcs := map[string]int64{}
	labels := map[string]int{}
	undis := map[string]int{}
	stubs := map[string]int{}
	assumptions := map[string]int{}
	var instrs int64
	var queries, sat, unsat, unknown, forks int
	var solverT time.Duration
	var samples []interface{}
	var allViols []*Violation
	perHarness := map[string]map[string]interface{}{}
	for _, r := range results {
		if r.err != "" {
			inconclusive = append(inconclusive, fmt.Sprintf("engine error in %s: %s", r.u.name, r.err))
			continue
		}
		if r.solverErr {
			inconclusive = append(inconclusive, "solver reported an (error ...) line during "+r.u.name)
		}
		for k, v := range r.stats.Paths {
			paths[k] += v
		}
		for k, v := range r.stats.EndSites {
			endSites[r.u.spec.Fn+": "+k] += v
			if strings.HasPrefix(k, "init-skip") {
				continue
			}
			if !r.u.spec.AllowTruncated {
				inconclusive = append(inconclusive, fmt.Sprintf("%s: incomplete exploration (%s x%d)", r.u.name, k, v))
			}
		}
		for k, v := range r.stats.Funcs {
			funcs[k] += v
		}
		for k, v := range r.stats.Labels {
			labels[r.u.spec.Fn+"/"+k] += v
		}
		for k, v := range r.stats.Undischarged {
			undis[r.u.spec.Fn+": "+k] += v
		}
		for k, v := range r.stats.Stubs {
			stubs[k] += v
		}
		for k, v := range r.stats.Assumptions {
			assumptions[k] += v
		}
		instrs += r.stats.Instrs
		forks += r.stats.Forks
		queries += r.queries
		sat += r.sat
		unsat += r.unsat
		unknown += r.unknown
		solverT += r.solverT
		for _, s := range r.samples {
			if len(samples) < 12 {
				s["unit"] = r.u.name
				samples = append(samples, s)
			}
		}
		for _, v := range r.viols {
			v := v
			allViols = append(allViols, v)
			_ = v
		}
		ph := perHarness[r.u.spec.Fn]
		if ph == nil {
			ph = map[string]interface{}{"paths": 0, "wall_s": 0.0, "units": 0, "bounds": r.u.spec.Bounds, "outside": r.u.spec.Outside, "params": r.u.params}
			perHarness[r.u.spec.Fn] = ph
		}
		np := 0
		for _, v := range r.stats.Paths {
			np += v
		}
		ph["paths"] = ph["paths"].(int) + np
		ph["wall_s"] = ph["wall_s"].(float64) + r.wall.Seconds()
		ph["units"] = ph["units"].(int) + 1
	}
	for k, v := range undis {
		inconclusive = append(inconclusive, fmt.Sprintf("undischarged obligation (solver unknown) %s x%d", k, v))
	}
	// vacuity: required labels
	for _, s := range specs {
		for _, l := range s.Reach {
			if labels[s.Fn+"/reach:"+l] == 0 {
				inconclusive = append(inconclusive, fmt.Sprintf("%s: required label %q was not reached (vacuity guard)", s.Fn, l))
			}
		}
	}

	// violations: dedupe by harness/kind/msg/site, replay, classify
	var nb *nativeBuilder
	seen := map[string]bool{}
	unitParams := map[string]map[string]int{}
	for _, r := range results {
		for _, v := range r.viols {
			unitParams[fmt.Sprintf("%p", v)] = r.u.params
		}
	}
	var reported, knownHit []string
	nviol := 0
	specByFn := map[string]*HarnessSpec{}
	for _, s := range specs {
		specByFn[s.Fn] = s
	}
	for _, v := range allViols {
		key := v.Harness + "|" + v.Kind + "|" + v.Msg + "|" + v.Site
		if seen[key] {
			continue
		}
		seen[key] = true
		spec := specByFn[v.Harness]
		rf := &ReplayFile{Property: prop, Harness: v.Harness, Pkg: spec.Pkg, Params: unitParams[fmt.Sprintf("%p", v)], Draws: v.Draws,
			Kind: v.Kind, Msg: v.Msg, Site: v.Site, Stack: v.Stack, Expect: v.Kind + ": " + v.Msg, Dirty: v.Dirty, HashDep: v.HashDep}
		b, _ := json.MarshalIndent(rf, "", " ")
		h := sha1.Sum(b)
		dir := filepath.Join(verifRoot(), "replays", prop)
		os.MkdirAll(dir, 0o755)
		path := filepath.Join(dir, fmt.Sprintf("%s-%x.json", v.Harness, h[:4]))
		confirmed, observable, detail := false, true, "replay skipped"
		if !noReplay {
			if nb == nil {
				var err error
				nb, err = newNativeBuilder()
				if err != nil {
					inconclusive = append(inconclusive, "cannot create scratch dir: "+err.Error())
				}
			}
			if nb != nil {
				os.WriteFile(path, b, 0o644)
				confirmed, observable, detail = nb.confirm(rf, path)
			}
		}
		rf.NativeObservable = observable
		b, _ = json.MarshalIndent(rf, "", " ")
		os.WriteFile(path, b, 0o644)
		v.Confirmed, v.ReplayPath = confirmed, path
		if observable && !confirmed && !noReplay {
			inconclusive = append(inconclusive, fmt.Sprintf("unconfirmed counterexample %s %q at %s (%s): %s", v.Kind, v.Msg, v.Site, path, detail))
			continue
		}
		isKnown := false
		for i := range known.Open {
			if known.Open[i].matches(prop, v, unitParams[fmt.Sprintf("%p", v)]) {
				isKnown = true
				v.Known = known.Open[i].What
				knownHit = append(knownHit, fmt.Sprintf("KNOWN-FINDING: property=%s %s [%s %q at %s]", prop, known.Open[i].What, v.Kind, v.Msg, v.Site))
				break
			}
		}
		if isKnown {
			continue
		}
		nviol++
		reported = append(reported, fmt.Sprintf("VIOLATION property=%s replay=%s", prop, path))
		fmt.Printf("  %s %q at %s in %s (%s)\n", v.Kind, v.Msg, v.Site, v.Harness, detail)
	}
	// translator validation: native vs. engine on random concrete vectors
	validated := 0
	if !noReplay && os.Getenv("VCHECK_NOVALIDATE") == "" {
		if nb == nil {
			nb, _ = newNativeBuilder()
		}
		vex, err := NewExec(loaded.prog, "z3", 20000)
		if nb != nil && err == nil {
			nvec := 6
			if tier == "thorough" {
				nvec = 30
			}
			if v := os.Getenv("VCHECK_NVEC"); v != "" {
				fmt.Sscan(v, &nvec)
			}
			done := map[string]int{}
			for _, u := range units {
				if done[u.spec.Fn] >= 3 || u.spec.NoValidate {
					continue // at most three units per harness
				}
				done[u.spec.Fn]++
				nv, mism := validateHarness(nb, vex, loaded, u, nvec, seed)
				validated += nv
				for _, m := range mism {
					inconclusive = append(inconclusive, "translator validation mismatch: "+m)
				}
			}
			vex.Close()
		}
	}
	if nb != nil {
		nb.Close()
	}
	sort.Strings(knownHit)
	last := ""
	for _, k := range knownHit {
		if k != last {
			fmt.Println(k)
		}
		last = k
	}
	for _, r := range reported {
		fmt.Println(r)
	}
	if nviol > 0 {
		exit = 1
	}

	// evidence
	npaths := 0
	for _, v := range paths {
		npaths += v
	}
	var fl []map[string]interface{}
	var fnames []string
	for k := range funcs {
		fnames = append(fnames, k)
	}
	sort.Strings(fnames)
	for _, k := range fnames {
		fl = append(fl, map[string]interface{}{"name": k, "calls": funcs[k]})
	}
	if len(samples) == 0 {
		samples = append(samples, map[string]interface{}{"note": "no completed path produced a sample"})
	}
	var vl []map[string]interface{}
	for _, v := range allViols {
		if v.ReplayPath == "" {
			continue
		}
		vl = append(vl, map[string]interface{}{"harness": v.Harness, "kind": v.Kind, "msg": v.Msg, "site": v.Site, "replay": v.ReplayPath, "confirmed_natively": v.Confirmed, "known": v.Known})
	}
	cov := map[string]interface{}{
		"states":                        npaths,
		"transitions":                   instrs,
		"traces_validated_against_impl": validated,
		"samples":                       samples,
		"explanation":                   explanationOf(prop),
		"functions_encoded":             fl,
		"harnesses":                     perHarness,
		"paths":                         paths,
		"incomplete_paths_by_site":      endSites,
		"queries":                       map[string]int{"total": queries, "sat": sat, "unsat": unsat, "unknown": unknown},
		"forks":                         forks,
		"solver_s":                      map[string]float64{"z3": solverT.Seconds()},
		"labels":                        labels,
		"stubs_used":                    stubs,
		"assumptions_applied":           assumptions,
		"violations":                    vl,
		"inconclusive":                  inconclusive,
		"load_s":                        loadT.Seconds(),
		"exhaustive":                    false,
	}
	ev := map[string]interface{}{
		"property_id": prop,
		"tier":        tier,
		"seed":        seed,
		"level":       levelOf(prop),
		"coverage":    cov,
		"assumptions": []string{
			"go/ssa construction and the executor's instruction semantics",
			"stubs: mcache/dirtmake allocators, sync.Pool, maphash as uninterpreted function, fmt as opaque strings",
			"objects live at fixed concrete addresses (address-dependent wrap-around is outside the claim unless sym_addr is set)",
			"allocation sizes taken from the input are assumed <= 2^24 where the code allocates them",
		},
		"wall_s":     time.Since(t0).Seconds(),
		"violations": nviol,
	}
	os.MkdirAll(filepath.Join(verifRoot(), "evidence"), 0o755)
	eb, _ := json.MarshalIndent(ev, "", " ")
	os.WriteFile(filepath.Join(verifRoot(), "evidence", prop+".json"), eb, 0o644)

	fmt.Printf("%s %s: %d paths, %d instrs, %d queries (%d unknown), solver %.1fs, wall %.1fs, violations %d, known %d\n", prop, tier, npaths, instrs, queries, unknown,
		solverT.Seconds(), time.Since(t0).Seconds(), nviol, len(knownHit))
	if len(inconclusive) > 0 && exit == 0 {
		sort.Strings(inconclusive)
		for i, m := range inconclusive {
			if i < 20 {
				fmt.Println("INCONCLUSIVE:", firstLine(m))
			}
		}
		exit = 2
	}
	return exit
}

// levelOf: C14 is decided through a sequential reduction, which is not model checking of schedules.
func levelOf(prop string) string {
	if prop == "C14" {
		return "other"
	}
	return "model_checking"
}

func explanationOf(prop string) string {
	base := "bounded symbolic execution of the real functions (go/ssa) with z3 deciding every branch, panic site, raw load and assertion for all inputs inside the stated bounds"
	if prop == "C14" {
		return "sequential non-interference reduction: " + base + "; all memory existing before the instances is frozen (plain stores to it are violations), consecutive and operation-interleaved instances incl. pooled-object reuse must see only their own symbolic payloads, map lookups must be store-free. Real goroutine schedules, sync.Pool per-P caches and the race detector's happens-before relation are not explored; sync.Pool, mcache, span and dirtmake are trusted to be thread-safe as documented."
	}
	return base
}
