package main

import (
	"fmt"
	"os"
	"path/filepath"
	"sort"
	"strings"

	"golang.org/x/tools/go/packages"
	"golang.org/x/tools/go/ssa"
	"golang.org/x/tools/go/ssa/ssautil"
)

var repoRoot = func() string {
	if v := os.Getenv("VCHECK_REPO"); v != "" {
		return v
	}
	return "/repo"
}()
const modPath = "github.com/cloudwego/gopkg"

func verifRoot() string {
	if v := os.Getenv("VERIF_ROOT"); v != "" {
		return v
	}
	exe, err := os.Executable()
	if err == nil {
		d := filepath.Dir(filepath.Dir(exe))
		if _, err := os.Stat(filepath.Join(d, "harness")); err == nil {
			return d
		}
	}
	return "/verif"
}

// pkgName returns the Go package name used in the given repo-relative directory.
func pkgNameOf(rel string) string {
	return filepath.Base(rel)
}

// buildOverlay maps harness files into the repo packages. native selects the native runtime
// (for go test replays); otherwise the declaration-only runtime for symbolic execution is used.
// It returns the overlay and the list of repo-relative package dirs that have harnesses.
func buildOverlay(native bool, only []string) (map[string][]byte, []string, error) {
	root := filepath.Join(verifRoot(), "harness")
	ov := map[string][]byte{}
	var pkgs []string
	tmpl := func(name string) (string, error) {
		b, err := os.ReadFile(filepath.Join(root, name))
		return string(b), err
	}
	symRT, err := tmpl("zz_rt_sym.go.tmpl")
	if err != nil {
		return nil, nil, err
	}
	natRT, _ := tmpl("zz_rt.go.tmpl")
	natUnsafe, _ := tmpl("zz_rt_unsafe.go.tmpl")
	natTest, _ := tmpl("zz_replay_test.go.tmpl")
	err = filepath.Walk(root, func(p string, info os.FileInfo, err error) error {
		if err != nil || info.IsDir() || !strings.HasSuffix(p, ".go") {
			return err
		}
		rel, _ := filepath.Rel(root, filepath.Dir(p))
		if len(only) > 0 {
			found := false
			for _, o := range only {
				if o == rel {
					found = true
				}
			}
			if !found {
				return nil
			}
		}
		b, err := os.ReadFile(p)
		if err != nil {
			return err
		}
		ov[filepath.Join(repoRoot, rel, filepath.Base(p))] = b
		seen := false
		for _, q := range pkgs {
			if q == rel {
				seen = true
			}
		}
		if !seen {
			pkgs = append(pkgs, rel)
		}
		return nil
	})
	if err != nil {
		return nil, nil, err
	}
	sort.Strings(pkgs)
	for _, rel := range pkgs {
		name := pkgNameOf(rel)
		dir := filepath.Join(repoRoot, rel)
		if native {
			ov[filepath.Join(dir, "zz_verif_rt.go")] = []byte(strings.ReplaceAll(natRT, "PKGNAME", name))
			ov[filepath.Join(dir, "zz_verif_rt_unsafe.go")] = []byte(strings.ReplaceAll(natUnsafe, "PKGNAME", name))
			ov[filepath.Join(dir, "zz_verif_replay_test.go")] = []byte(strings.ReplaceAll(natTest, "PKGNAME", name))
		} else {
			ov[filepath.Join(dir, "zz_verif_rt.go")] = []byte(strings.ReplaceAll(symRT, "PKGNAME", name))
		}
	}
	return ov, pkgs, nil
}

type Loaded struct {
	prog *ssa.Program
	pkgs map[string]*ssa.Package // by repo-relative dir
}

func loadProgram(rels []string) (*Loaded, error) {
	ov, _, err := buildOverlay(false, rels)
	if err != nil {
		return nil, err
	}
	var patterns []string
	for _, r := range rels {
		patterns = append(patterns, "./"+r)
	}
	cfg := &packages.Config{
		Mode:       packages.LoadAllSyntax,
		Dir:        repoRoot,
		BuildFlags: []string{"-tags=verif"},
		Overlay:    ov,
		Env:        append(os.Environ(), "GOFLAGS=-mod=mod", "GOPROXY=off", "GOSUMDB=off", "GOTOOLCHAIN=local"),
	}
	pkgs, err := packages.Load(cfg, patterns...)
	if err != nil {
		return nil, err
	}
	var errs []string
	packages.Visit(pkgs, nil, func(p *packages.Package) {
		for _, e := range p.Errors {
			errs = append(errs, e.Error())
		}
	})
	if len(errs) > 0 {
		return nil, fmt.Errorf("package errors (harness not applicable to this tree?):\n  %s", strings.Join(errs, "\n  "))
	}
	prog, spkgs := ssautil.AllPackages(pkgs, ssa.InstantiateGenerics)
	prog.Build()
	l := &Loaded{prog: prog, pkgs: map[string]*ssa.Package{}}
	for i, p := range pkgs {
		rel := strings.TrimPrefix(strings.TrimPrefix(p.PkgPath, modPath), "/")
		l.pkgs[rel] = spkgs[i]
	}
	return l, nil
}
