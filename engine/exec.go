package main

import (
	"fmt"
	"io"
	"os"
	"strconv"
	"time"
	"go/constant"
	"go/token"
	"go/types"
	"math"
	"sort"
	"strings"

	"golang.org/x/tools/go/ssa"
)

const constBase = 1 << 30

type pathEnd struct {
	kind string // done, unsupported, truncated, infeasible, violation, panic
	msg  string
}

func unsupported(msg string) pathEnd { return pathEnd{"unsupported", msg} }

type fnInfo struct {
	idx  map[ssa.Value]int
	n    int
	name string
}

type deferCall struct {
	fn   Value
	args []Value
	call *ssa.CallCommon
}

type Frame struct {
	fn      *ssa.Function
	info    *fnInfo
	env     []Value
	block   *ssa.BasicBlock
	prev    *ssa.BasicBlock
	ip      int
	defers  []deferCall
	visits  []int32
	isDefer bool // return value discarded, caller re-executes RunDefers
	isInit  bool
}

func (f *Frame) clone() *Frame {
	n := *f
	n.env = append([]Value(nil), f.env...)
	n.visits = append([]int32(nil), f.visits...)
	n.defers = append([]deferCall(nil), f.defers...)
	return &n
}

type Draw struct {
	Name string
	Kind string // "int", "bytes"
	T    *Term  // value (int) or length (bytes)
	W    uint8
	Arr  *Arr
	Signed bool
}

type hashCall struct {
	seed *Term
	s    StrV
	h    *Term
}

type State struct {
	frames  []*Frame
	heap    []*Object
	shared  []bool
	pc      *PCNode
	draws   []Draw
	forced  []int
	taken   []int
	steps   int
	globals map[*ssa.Global]int
	pools   map[int][]Value
	hashes  []hashCall
	notes   []string
	decisions []int // all choices made on this path (for samples)
	inited  map[*ssa.Package]bool
	mutexes int
	formats map[string]StrV
	freezeGlobals bool
}

type Violation struct {
	Kind    string // assert, panic, oob, uaf, ...
	Site    string
	Msg     string
	Draws   []DrawVal
	Harness string
	Stack   []string
	Confirmed bool
	ReplayPath string
	Known   string
	Dirty   bool // the failing condition reads uninitialised allocator memory
	HashDep bool // the path depends on values of the uninterpreted hash function
}

type DrawVal struct {
	Name  string `json:"name"`
	Kind  string `json:"kind"`
	Val   uint64 `json:"val"`
	Bytes []byte `json:"bytes,omitempty"`
	Len   uint64 `json:"len,omitempty"`
}

type Stats struct {
	Paths        map[string]int // by end kind
	EndSites     map[string]int // truncated/unsupported by site
	Instrs       int64
	Funcs        map[string]int64
	Labels       map[string]int
	Undischarged map[string]int
	Forks        int
	Stubs        map[string]int
	Assumptions  map[string]int
	MaxDepth     int
	Fallbacks, Fallbacks2 int
	PortfolioZ3 int
	Retries     int
}

type Exec struct {
	ts      *TS
	prog    *ssa.Program
	solver  *Solver
	infos   map[*ssa.Function]*fnInfo
	consts  []*Object
	constIx map[string]int
	work    []*State
	params  map[string]int
	stats   Stats
	viols   []*Violation
	violSeen map[string]int
	harness string
	unwind  int
	maxSteps int
	maxPaths int
	maxDepth int
	initMode bool
	concrete []DrawVal // concrete replay mode: draws take these values
	concIdx  int
	observations []string
	samples []map[string]interface{}
	implied map[uint32]*PCNode
	allocCap int64
	stopOnViolation bool
	trace bool
	mapOrders bool
	unsatMemo map[uint32]*PCNode
	symAddr bool
	cur *State
	lastBad *Term
	deadline time.Time
	inAtomic bool
	cvc5Time time.Duration
	unresolved int
	hardNext bool
	noCvc5 bool
	alt *Solver
	msolver *Solver
	progress bool
}

func NewExec(prog *ssa.Program, solverKind string, timeoutMs int) (*Exec, error) {
	ts := NewTS()
	var logw io.Writer
	if p := os.Getenv("VCHECK_SMTLOG"); p != "" {
		f, _ := os.Create(p)
		logw = f
	}
	s, err := NewSolver(ts, solverKind, timeoutMs, logw)
	if err != nil {
		return nil, err
	}
	ex := &Exec{ts: ts, prog: prog, solver: s, infos: map[*ssa.Function]*fnInfo{}, constIx: map[string]int{},
		params: map[string]int{}, violSeen: map[string]int{}, unwind: 200, maxSteps: 2000000, maxPaths: 1000000, maxDepth: 200,
		allocCap: 1 << 24, mapOrders: true, unsatMemo: map[uint32]*PCNode{}}
	ex.resetStats()
	ex.msolver = s
	if os.Getenv("VCHECK_NOALT") == "" {
		ex.alt, err = NewSolver(ts, solverKind, timeoutMs, nil)
		if err != nil {
			return nil, err
		}
		ex.alt.resetMode = true
		s.setTimeout(400)
		ex.noCvc5 = os.Getenv("VCHECK_NOCVC5") != ""
	}
	ex.progress = os.Getenv("VCHECK_PROGRESS") != ""
	if v := os.Getenv("VCHECK_SLOW"); v != "" {
		ms, _ := strconv.Atoi(v)
		s.SlowThreshold = time.Duration(ms) * time.Millisecond
		s.SlowLog = func(d time.Duration, r Result) {
			site := "?"
			if ex.cur != nil && len(ex.cur.frames) > 0 {
				site = ex.site(ex.cur) + " in " + ex.cur.top().fn.Name()
			}
			fmt.Fprintf(os.Stderr, "SLOW %v %s at %s\n", d.Round(time.Millisecond), r, site)
		}
	}
	return ex, nil
}

func (ex *Exec) resetStats() {
	ex.stats = Stats{Paths: map[string]int{}, EndSites: map[string]int{}, Funcs: map[string]int64{}, Labels: map[string]int{},
		Undischarged: map[string]int{}, Stubs: map[string]int{}, Assumptions: map[string]int{}}
}

// ---------------------------------------------------------------- state helpers

func (st *State) top() *Frame { return st.frames[len(st.frames)-1] }

func (st *State) clone() *State {
	n := &State{pc: st.pc, steps: st.steps, mutexes: st.mutexes, freezeGlobals: st.freezeGlobals}
	n.frames = make([]*Frame, len(st.frames))
	for i, f := range st.frames {
		n.frames[i] = f.clone()
	}
	n.heap = append([]*Object(nil), st.heap...)
	n.shared = make([]bool, len(st.heap))
	for i := range n.shared {
		n.shared[i] = true
	}
	for i := range st.shared {
		st.shared[i] = true
	}
	n.draws = append([]Draw(nil), st.draws...)
	n.hashes = append([]hashCall(nil), st.hashes...)
	n.decisions = append([]int(nil), st.decisions...)
	n.globals = make(map[*ssa.Global]int, len(st.globals))
	for k, v := range st.globals {
		n.globals[k] = v
	}
	n.pools = make(map[int][]Value, len(st.pools))
	for k, v := range st.pools {
		n.pools[k] = append([]Value(nil), v...)
	}
	if st.formats != nil {
		n.formats = make(map[string]StrV, len(st.formats))
		for k, v := range st.formats {
			n.formats[k] = v
		}
	}
	n.inited = make(map[*ssa.Package]bool, len(st.inited))
	for k, v := range st.inited {
		n.inited[k] = v
	}
	return n
}

func (ex *Exec) obj(st *State, id int) *Object {
	if id >= constBase {
		return ex.consts[id-constBase]
	}
	if id <= 0 || id >= len(st.heap) {
		panic(fmt.Sprintf("internal: bad object id %d", id))
	}
	return st.heap[id]
}

func (ex *Exec) objW(st *State, id int) *Object {
	if id >= constBase {
		panic(pathEnd{"violation-internal", "write to constant object"})
	}
	if st.shared[id] {
		st.heap[id] = st.heap[id].clone()
		st.shared[id] = false
	}
	return st.heap[id]
}

func (ex *Exec) addObj(st *State, o *Object) int {
	if len(st.heap) == 0 {
		st.heap = append(st.heap, nil)
		st.shared = append(st.shared, false)
	}
	o.id = len(st.heap)
	st.heap = append(st.heap, o)
	st.shared = append(st.shared, false)
	return o.id
}

func (ex *Exec) newBytesObj(st *State, arr *Arr, size *Term, typ types.Type) int {
	return ex.addObj(st, &Object{kind: KBytes, arr: arr, size: size, typ: typ})
}

func (ex *Exec) newCellObj(st *State, t types.Type) int {
	if isByteArrayType(t) {
		n := t.Underlying().(*types.Array).Len()
		return ex.newBytesObj(st, ex.ts.FillArr(ex.ts.Const(8, 0)), ex.ts.Const(64, uint64(n)), t)
	}
	return ex.addObj(st, &Object{kind: KCells, root: ex.newCell(t), typ: t})
}

func (ex *Exec) constStrObj(s string) int {
	if id, ok := ex.constIx[s]; ok {
		return id
	}
	o := &Object{kind: KBytes, arr: ex.ts.ConstArr([]byte(s)), size: ex.ts.Const(64, uint64(len(s))), readonly: true, tag: "const"}
	o.id = constBase + len(ex.consts)
	ex.consts = append(ex.consts, o)
	ex.constIx[s] = o.id
	return o.id
}

func (ex *Exec) strConst(s string) StrV {
	if len(s) == 0 {
		return StrV{Off: ex.ts.Const(64, 0), Len: ex.ts.Const(64, 0)}
	}
	return StrV{Obj: ex.constStrObj(s), Off: ex.ts.Const(64, 0), Len: ex.ts.Const(64, uint64(len(s)))}
}

func (ex *Exec) addPC(st *State, c *Term) {
	if c.IsTrue() {
		return
	}
	st.pc = st.pc.Push(c)
}

func (ex *Exec) objAddr(st *State, id int) *Term {
	o := ex.obj(st, id)
	if o.addr == nil && !ex.symAddr {
		// fixed, well separated concrete addresses (see DESIGN: address model)
		if id < constBase {
			o = ex.objW(st, id)
			o.addr = ex.ts.Const(64, 0xc000000000+uint64(id)<<34)
		} else {
			o.addr = ex.ts.Const(64, 0x400000+uint64(id-constBase)<<20)
		}
		return o.addr
	}
	if o.addr == nil {
		a := ex.ts.Fresh(64, "addr")
		if id < constBase {
			o = ex.objW(st, id)
		}
		o.addr = a
		ts := ex.ts
		ex.addPC(st, ts.BAnd(ts.Ule(ts.Const(64, 4096), a), ts.BAnd(ts.Ule(a, ts.Const(64, 1<<46)), ts.Ule(o.size, ts.Const(64, 1<<40)))))
	}
	return o.addr
}

// ---------------------------------------------------------------- forking

func (ex *Exec) feasible(st *State, c *Term) bool {
	if c.IsTrue() {
		return true
	}
	if c.IsFalse() {
		return false
	}
	if n, ok := ex.unsatMemo[c.id]; ok && isAncestor(n, st.pc) {
		return false
	}
	r := ex.sat(st.pc, c)
	ex.endModel()
	if r == Unsat {
		ex.unsatMemo[c.id] = st.pc
	}
	return r != Unsat
}

// sat decides pc /\ extra: first with the incremental solver under a short timeout, then from
// scratch with the reset-mode solver, finally (verdict only) with cvc5's integer encoding.
func (ex *Exec) sat(pc *PCNode, extra *Term) Result {
	ex.msolver = ex.solver
	if ex.hardNext && ex.alt != nil {
		// content-equality obligations: skip the incremental attempt, it almost always times out
		ex.hardNext = false
	} else {
		r := ex.solver.Check(pc, extra)
		if r != Unknown || ex.alt == nil {
			if r == Unknown {
				ex.unresolved++
			}
			return r
		}
		ex.solver.EndModel()
	}
	ex.stats.Fallbacks++
	// tier 2 (verdict only): cvc5 with the integer encoding of bit-vector arithmetic; very fast on
	// the offset/length arithmetic that dominates the hard queries, which are mostly unsat
	if !ex.noCvc5 {
		t0 := time.Now()
		script := ex.alt.Standalone(pc, extra, "ALL")
		r2, who := portfolio(script, 10*time.Second)
		ex.cvc5Time += time.Since(t0)
		if dir := os.Getenv("VCHECK_DUMPSLOW"); dir != "" && time.Since(t0) > 200*time.Millisecond {
			os.WriteFile(fmt.Sprintf("%s/cvc5_%d.smt2", dir, ex.stats.Fallbacks), []byte(script), 0o644)
		}
		if r2 == Unsat {
			ex.stats.Fallbacks2++
			if who == "z3" {
				ex.stats.PortfolioZ3++
			}
			return Unsat
		}
	}
	// tier 3: z3 from scratch (non-incremental strategy), provides models
	ex.msolver = ex.alt
	r := ex.alt.Check(pc, extra)
	if r == Unknown {
		// one more attempt with three times the limit (time-outs are mostly load on the machine)
		old := ex.alt.timeoutMs
		ex.alt.timeoutMs = 3 * old
		r = ex.alt.Check(pc, extra)
		ex.alt.timeoutMs = old
		ex.stats.Retries++
	}
	if r == Unknown {
		ex.unresolved++
	}
	return r
}

func (ex *Exec) Close() {
	ex.solver.Close()
	if ex.alt != nil {
		ex.alt.Close()
	}
}

// solver statistics over both tiers
func (ex *Exec) solverCounts() (q, sat, unsat, unknown int, t time.Duration) {
	q, sat, unsat, t = ex.solver.NQueries, ex.solver.NSat, ex.solver.NUnsat, ex.solver.Time
	if ex.alt != nil {
		q += ex.alt.NQueries
		sat += ex.alt.NSat
		unsat += ex.alt.NUnsat + ex.stats.Fallbacks2
		t += ex.alt.Time
	}
	unknown = ex.unresolved // queries no tier could decide
	return
}

func (ex *Exec) endModel() {
	ex.solver.EndModel()
}

// implies reports whether the path condition entails c.
func (ex *Exec) implies(st *State, c *Term) bool {
	if c.IsTrue() {
		return true
	}
	if c.IsFalse() {
		return false
	}
	return !ex.feasible(st, ex.ts.BNot(c))
}

func isAncestor(a, b *PCNode) bool {
	if a == nil {
		return true
	}
	for b != nil && b.depth > a.depth {
		b = b.parent
	}
	return a == b
}

// fork chooses among conds (assumed exhaustive when exhaustive is set). Other feasible alternatives
// are cloned and will re-execute the current instruction with the choice forced.
func (ex *Exec) fork(st *State, conds []*Term, exhaustive bool) int {
	k := len(st.taken)
	if k < len(st.forced) {
		i := st.forced[k]
		st.taken = append(st.taken, i)
		ex.addPC(st, conds[i])
		st.decisions = append(st.decisions, i)
		return i
	}
	var feas []int
	for i, c := range conds {
		if c.IsTrue() {
			feas = []int{i}
			break
		}
		if c.IsFalse() {
			continue
		}
		if exhaustive && i == len(conds)-1 && len(feas) == 0 {
			feas = append(feas, i)
			break
		}
		if ex.feasible(st, c) {
			feas = append(feas, i)
		}
	}
	if len(feas) == 0 {
		panic(pathEnd{"infeasible", "no feasible alternative"})
	}
	for _, i := range feas[1:] {
		c := st.clone()
		c.forced = append(append([]int(nil), st.taken...), i)
		c.taken = nil
		ex.work = append(ex.work, c)
		ex.stats.Forks++
	}
	i := feas[0]
	st.taken = append(st.taken, i)
	ex.addPC(st, conds[i])
	if len(feas) > 1 || !conds[i].IsTrue() {
		st.decisions = append(st.decisions, i)
	}
	return i
}

func (ex *Exec) decide(st *State, c *Term) bool {
	if c.IsTrue() {
		return true
	}
	if c.IsFalse() {
		return false
	}
	return ex.fork(st, []*Term{c, ex.ts.BNot(c)}, true) == 0
}

// concretize forces t to a constant by forking over its feasible values (at most limit).
func (ex *Exec) concretize(st *State, t *Term, limit int, what string) uint64 {
	if t.Op == OConst {
		return t.K
	}
	k := len(st.taken)
	if k < len(st.forced) {
		v := uint64(st.forced[k])
		st.taken = append(st.taken, int(v))
		ex.addPC(st, ex.ts.Eq(t, ex.ts.Const(t.W, v)))
		return v
	}
	// enumerate models
	var vals []uint64
	excl := ex.ts.True
	for len(vals) <= limit {
		r := ex.sat(st.pc, excl)
		if r != Sat {
			ex.endModel()
			if r == Unknown {
				panic(pathEnd{"truncated", "concretize: solver unknown for " + what})
			}
			break
		}
		v, ok := ex.msolver.Eval(t)
		ex.endModel()
		if !ok {
			panic(pathEnd{"truncated", "concretize: no model value for " + what})
		}
		vals = append(vals, v)
		excl = ex.ts.BAnd(excl, ex.ts.BNot(ex.ts.Eq(t, ex.ts.Const(t.W, v))))
	}
	if len(vals) == 0 {
		panic(pathEnd{"infeasible", "concretize"})
	}
	if len(vals) > limit {
		ex.noteEnd("truncated", "concretize: more than limit values for "+what+" at "+ex.site(st))
		// continue with the values found, but record that the rest is cut
		vals = vals[:limit]
	}
	sort.Slice(vals, func(i, j int) bool { return vals[i] < vals[j] })
	for _, v := range vals[1:] {
		c := st.clone()
		c.forced = append(append([]int(nil), st.taken...), int(v))
		c.taken = nil
		ex.work = append(ex.work, c)
		ex.stats.Forks++
	}
	v := vals[0]
	st.taken = append(st.taken, int(v))
	ex.addPC(st, ex.ts.Eq(t, ex.ts.Const(t.W, v)))
	return v
}

func (ex *Exec) noteEnd(kind, site string) {
	ex.stats.EndSites[kind+": "+site]++
}

// check reports a violation if bad is satisfiable on this path, then continues under !bad.
func (ex *Exec) check(st *State, bad *Term, kind, msg string) {
	if bad.IsFalse() {
		return
	}
	if n, ok := ex.unsatMemo[bad.id]; ok && isAncestor(n, st.pc) {
		return
	}
	if ex.initMode {
		if bad.IsTrue() {
			panic(pathEnd{"panic", msg})
		}
		return
	}
	r := ex.sat(st.pc, bad)
	switch r {
	case Sat:
		ex.lastBad = bad
		ex.report(st, kind, msg)
		ex.lastBad = nil
		ex.endModel()
	case Unknown:
		ex.endModel()
		ex.stats.Undischarged[kind+" "+msg+" @ "+ex.site(st)]++
	case Unsat:
		ex.unsatMemo[bad.id] = st.pc
		return
	}
	if bad.IsTrue() {
		panic(pathEnd{"violation", msg})
	}
	ex.addPC(st, ex.ts.BNot(bad))
	if r == Sat {
		rr := ex.sat(st.pc, nil)
		ex.endModel()
		if rr == Unsat {
			panic(pathEnd{"violation", msg})
		}
	}
}

func (ex *Exec) site(st *State) string {
	if len(st.frames) == 0 {
		return "?"
	}
	for i := len(st.frames) - 1; i >= 0; i-- {
		fr := st.frames[i]
		if fr.block == nil || fr.ip >= len(fr.block.Instrs) {
			continue
		}
		pos := fr.block.Instrs[fr.ip].Pos()
		if pos == token.NoPos {
			// look backwards for a position
			for j := fr.ip; j >= 0 && pos == token.NoPos; j-- {
				pos = fr.block.Instrs[j].Pos()
			}
		}
		if pos != token.NoPos {
			p := ex.prog.Fset.Position(pos)
			fn := p.Filename
			if strings.HasPrefix(fn, repoRoot+"/") {
				fn = fn[len(repoRoot)+1:]
			} else if k := strings.LastIndex(fn, "/src/"); k >= 0 {
				fn = fn[k+5:]
			}
			return fmt.Sprintf("%s:%d", fn, p.Line)
		}
	}
	return st.top().fn.String()
}

func (ex *Exec) stack(st *State) []string {
	var r []string
	for i := len(st.frames) - 1; i >= 0 && len(r) < 12; i-- {
		r = append(r, st.frames[i].fn.String())
	}
	return r
}

func (ex *Exec) report(st *State, kind, msg string) {
	site := ex.site(st)
	key := kind + "|" + msg + "|" + site
	ex.violSeen[key]++
	if ex.violSeen[key] > 3 {
		return
	}
	v := &Violation{Kind: kind, Site: site, Msg: msg, Harness: ex.harness, Stack: ex.stack(st)}
	v.Dirty = ex.lastBad != nil && ex.dependsOnDirty(ex.lastBad, map[uint32]bool{})
	v.HashDep = len(st.hashes) > 1
	v.Draws = ex.modelDraws(st)
	if ex.lastBad != nil && kind == "assert" {
		// prefer a model whose input bytes are non-zero: fresh native memory is usually zero, so a
		// counterexample that relies on "garbage != my zero bytes" would not replay
		if pref := ex.nonzeroPreference(st); pref != nil {
			ex.endModel()
			if ex.sat(st.pc, ex.ts.BAnd(ex.lastBad, pref)) == Sat {
				v.Draws = ex.modelDraws(st)
			} else {
				ex.endModel()
				ex.sat(st.pc, ex.lastBad) // restore a model context for the caller
			}
		}
	}
	ex.viols = append(ex.viols, v)
}

// dependsOnDirty: does t read memory handed out uninitialised by dirtmake / mcache?
func (ex *Exec) dependsOnDirty(t *Term, seen map[uint32]bool) bool {
	if t == nil || seen[t.id] {
		return false
	}
	seen[t.id] = true
	if t.Op == OSelect && t.Arr != nil && (strings.HasPrefix(t.Arr.Name, "dirty!") || strings.HasPrefix(t.Arr.Name, "mcache!")) {
		return true
	}
	return ex.dependsOnDirty(t.A, seen) || ex.dependsOnDirty(t.B, seen) || ex.dependsOnDirty(t.C, seen)
}

// nonzeroPreference: every byte of a drawn input that the solver context mentions is non-zero
func (ex *Exec) nonzeroPreference(st *State) *Term {
	draws := map[*Arr]bool{}
	for _, d := range st.draws {
		if d.Kind == "bytes" && d.Arr != nil {
			draws[d.Arr] = true
		}
	}
	if len(draws) == 0 {
		return nil
	}
	var pref *Term
	n := 0
	for _, t := range ex.ts.tab {
		if t.Op == OSelect && draws[t.Arr] && ex.msolver.defined[t.id] {
			c := ex.ts.BNot(ex.ts.Eq(t, ex.ts.Const(8, 0)))
			if pref == nil {
				pref = c
			} else {
				pref = ex.ts.BAnd(pref, c)
			}
			n++
			if n > 64 {
				break
			}
		}
	}
	return pref
}

func (ex *Exec) modelDraws(st *State) []DrawVal {
	var out []DrawVal
	for _, d := range st.draws {
		dv := DrawVal{Name: d.Name, Kind: d.Kind}
		v, _ := ex.msolver.Eval(d.T)
		if d.Kind == "int" {
			dv.Val = v
			if d.Signed {
				dv.Val = uint64(sext64(v, d.W))
			}
		} else {
			dv.Len = v
			n := v
			if n > 4096 {
				n = 4096
			}
			dv.Bytes = make([]byte, n)
			for i := uint64(0); i < n; i++ {
				b, _ := ex.msolver.Eval(ex.ts.Select(d.Arr, ex.ts.Const(64, i)))
				dv.Bytes[i] = byte(b)
			}
			if v > n {
				// sparse positions mentioned in formulas
				full := map[uint64]byte{}
				for _, t := range ex.ts.tab {
					if t.Op == OSelect && t.Arr == d.Arr && ex.msolver.defined[t.id] {
						ix, ok1 := ex.msolver.Eval(t.A)
						bv, ok2 := ex.msolver.Eval(t)
						if ok1 && ok2 && ix < v && ix >= n {
							full[ix] = byte(bv)
						}
					}
				}
				if len(full) > 0 && v <= 1<<24 {
					buf := make([]byte, v)
					copy(buf, dv.Bytes)
					for ix, b := range full {
						buf[ix] = b
					}
					dv.Bytes = buf
				}
			}
		}
		out = append(out, dv)
	}
	return out
}

// ---------------------------------------------------------------- function info / values

func (ex *Exec) info(fn *ssa.Function) *fnInfo {
	if fi, ok := ex.infos[fn]; ok {
		return fi
	}
	fi := &fnInfo{idx: map[ssa.Value]int{}, name: fn.String()}
	for _, p := range fn.Params {
		fi.idx[p] = fi.n
		fi.n++
	}
	for _, p := range fn.FreeVars {
		fi.idx[p] = fi.n
		fi.n++
	}
	for _, b := range fn.Blocks {
		for _, in := range b.Instrs {
			if v, ok := in.(ssa.Value); ok {
				fi.idx[v] = fi.n
				fi.n++
			}
		}
	}
	ex.infos[fn] = fi
	return fi
}

func (ex *Exec) constVal(c *ssa.Const) Value {
	t := c.Type()
	if c.Value == nil {
		return ex.zero(t)
	}
	if tp, ok := t.(*types.TypeParam); ok {
		_ = tp
		panic(unsupported("constant of type parameter type"))
	}
	b, ok := t.Underlying().(*types.Basic)
	if !ok {
		panic(unsupported("non-basic constant " + t.String()))
	}
	switch {
	case b.Info()&types.IsBoolean != 0:
		return ex.ts.Bool(constant.BoolVal(c.Value))
	case b.Info()&types.IsString != 0:
		return ex.strConst(constant.StringVal(c.Value))
	case b.Info()&types.IsInteger != 0:
		w := widthOf(t)
		if u, ok := constant.Uint64Val(constant.ToInt(c.Value)); ok {
			return ex.ts.Const(w, u)
		}
		i, _ := constant.Int64Val(constant.ToInt(c.Value))
		return ex.ts.Const(w, uint64(i))
	case b.Info()&types.IsFloat != 0:
		f, _ := constant.Float64Val(c.Value)
		if b.Kind() == types.Float32 {
			return ex.ts.Const(32, uint64(math.Float32bits(float32(f))))
		}
		return ex.ts.Const(64, math.Float64bits(f))
	}
	panic(unsupported("constant kind " + t.String()))
}

func (ex *Exec) globalObj(st *State, g *ssa.Global) int {
	if id, ok := st.globals[g]; ok {
		return id
	}
	t := g.Type().(*types.Pointer).Elem()
	id := ex.newCellObj(st, t)
	ex.obj(st, id).tag = "global " + g.String()
	if st.freezeGlobals {
		ex.obj(st, id).frozen = true
	}
	st.globals[g] = id
	return id
}

func (ex *Exec) get(st *State, fr *Frame, v ssa.Value) Value {
	switch x := v.(type) {
	case *ssa.Const:
		return ex.constVal(x)
	case *ssa.Global:
		ex.ensureInit(st, x.Pkg)
		id := ex.globalObj(st, x)
		if ex.obj(st, id).kind == KBytes {
			return PtrV{Obj: id, Off: ex.ts.Const(64, 0)}
		}
		return PtrV{Obj: id}
	case *ssa.Function:
		return FuncV{Fn: x}
	case *ssa.Builtin:
		return OpaqueV{"builtin " + x.Name()}
	}
	i, ok := fr.info.idx[v]
	if !ok {
		panic(fmt.Sprintf("internal: value %s not in function %s", v.Name(), fr.fn))
	}
	r := fr.env[i]
	if r == nil {
		panic(fmt.Sprintf("internal: value %s (%T) unset in %s", v.Name(), v, fr.fn))
	}
	return r
}

func (ex *Exec) set(fr *Frame, v ssa.Value, val Value) {
	fr.env[fr.info.idx[v]] = val
}

func (ex *Exec) term(v Value) *Term {
	t, ok := v.(*Term)
	if !ok {
		panic(unsupported(fmt.Sprintf("expected scalar, got %T", v)))
	}
	return t
}

// ---------------------------------------------------------------- running

func (ex *Exec) pushFrame(st *State, fn *ssa.Function, args []Value, bind []Value) *Frame {
	if len(fn.Blocks) == 0 {
		panic(unsupported("call to function without body: " + fn.String()))
	}
	if len(st.frames) >= ex.maxDepth {
		panic(pathEnd{"truncated", "call depth limit at " + fn.String()})
	}
	fi := ex.info(fn)
	fr := &Frame{fn: fn, info: fi, env: make([]Value, fi.n), block: fn.Blocks[0], visits: make([]int32, len(fn.Blocks))}
	if len(args) != len(fn.Params) {
		panic(fmt.Sprintf("internal: arg count mismatch calling %s: %d vs %d", fn, len(args), len(fn.Params)))
	}
	for i, p := range fn.Params {
		fr.env[fi.idx[p]] = args[i]
	}
	for i, p := range fn.FreeVars {
		fr.env[fi.idx[p]] = bind[i]
	}
	st.frames = append(st.frames, fr)
	if len(st.frames) > ex.stats.MaxDepth {
		ex.stats.MaxDepth = len(st.frames)
	}
	return fr
}

// Explore runs fn with args from the given initial state until all paths are done.
func (ex *Exec) Explore(st0 *State, fn *ssa.Function, args []Value) {
	st := st0.clone()
	ex.pushFrame(st, fn, args, nil)
	ex.work = append(ex.work, st)
	npaths := 0
	for len(ex.work) > 0 {
		st := ex.work[len(ex.work)-1]
		ex.work = ex.work[:len(ex.work)-1]
		end := ex.runPath(st)
		ex.stats.Paths[end.kind]++
		npaths++
		if ex.progress && (npaths%50 == 0 || (npaths < 50 && npaths%5 == 0)) {
			fmt.Fprintf(os.Stderr, "progress: %d paths %v, %d pending, %d instrs, %d queries, solver %v, fallbacks %d (cvc5 solved %d in %v), alt %v\n", npaths, ex.stats.Paths, len(ex.work), ex.stats.Instrs, ex.solver.NQueries, ex.solver.Time.Round(time.Millisecond), ex.stats.Fallbacks, ex.stats.Fallbacks2, ex.cvc5Time.Round(time.Millisecond), ex.alt.Time.Round(time.Millisecond))
		}
		if end.kind == "unsupported" || end.kind == "truncated" {
			ex.noteEnd(end.kind, end.msg+" @ "+ex.site(st))
		}
		if end.kind == "done" && len(ex.samples) < 6 && !ex.initMode {
			ex.addSample(st)
		}
		if ex.stopOnViolation && len(ex.viols) > 0 {
			ex.work = nil
			break
		}
		if ex.stats.Paths["violation"] >= 300 && len(ex.viols) > 0 {
			// the unit already has counterexamples; do not enumerate every failing path
			ex.work = nil
			break
		}
		if !ex.deadline.IsZero() && time.Now().After(ex.deadline) && len(ex.work) > 0 {
			ex.noteEnd("truncated", fmt.Sprintf("time budget of the work unit exhausted with %d states pending", len(ex.work)))
			ex.stats.Paths["truncated"] += len(ex.work)
			ex.work = nil
		}
		if npaths >= ex.maxPaths {
			ex.noteEnd("truncated", fmt.Sprintf("path budget %d exhausted with %d states pending", ex.maxPaths, len(ex.work)))
			ex.stats.Paths["truncated"] += len(ex.work)
			ex.work = nil
		}
	}
}

func (ex *Exec) addSample(st *State) {
	r := ex.sat(st.pc, nil)
	if r != Sat {
		ex.endModel()
		return
	}
	dv := ex.modelDraws(st)
	ex.endModel()
	m := map[string]interface{}{}
	for _, d := range dv {
		if d.Kind == "int" {
			m[d.Name] = d.Val
		} else {
			b := d.Bytes
			if len(b) > 24 {
				b = b[:24]
			}
			m[d.Name] = fmt.Sprintf("len=%d %x", d.Len, b)
		}
	}
	ex.samples = append(ex.samples, map[string]interface{}{"harness": ex.harness, "inputs": m, "decisions": len(st.decisions)})
}

func (ex *Exec) runPath(st *State) (end pathEnd) {
	ex.cur = st
	defer func() {
		if r := recover(); r != nil {
			if pe, ok := r.(pathEnd); ok {
				end = pe
				return
			}
			panic(r)
		}
	}()
	for {
		if len(st.frames) == 0 {
			return pathEnd{"done", ""}
		}
		fr := st.top()
		if fr.ip >= len(fr.block.Instrs) {
			panic("internal: fell off block")
		}
		in := fr.block.Instrs[fr.ip]
		st.taken = st.taken[:0]
		st.steps++
		ex.stats.Instrs++
		if st.steps > ex.maxSteps {
			return pathEnd{"truncated", "instruction budget (possible non-termination)"}
		}
		if st.steps&255 == 0 && !ex.deadline.IsZero() && time.Now().After(ex.deadline) {
			return pathEnd{"truncated", "time budget of the work unit exhausted"}
		}
		if ex.trace {
			fmt.Printf("  [%d] %s: %s\n", len(st.frames), fr.fn.Name(), in)
		}
		if ex.initMode {
			ex.execInit(st, fr, in)
		} else {
			ex.exec(st, fr, in)
		}
		if len(st.forced) > 0 {
			if len(st.taken) < len(st.forced) {
				panic(fmt.Sprintf("internal: forced decisions not consumed at %s: %v vs %v (%s)", ex.site(st), st.taken, st.forced, in))
			}
			st.forced = nil
		}
	}
}

// execInit executes one instruction of a package initializer; unsupported constructs are skipped
// (their result becomes the zero value) so that unrelated library globals do not block the run.
func (ex *Exec) execInit(st *State, fr *Frame, in ssa.Instruction) {
	nframes := len(st.frames)
	defer func() {
		if r := recover(); r != nil {
			pe, ok := r.(pathEnd)
			if !ok || pe.kind != "unsupported" {
				panic(r)
			}
			ex.stats.EndSites["init-skip: "+pe.msg]++
			st.frames = st.frames[:nframes]
			if v, ok := in.(ssa.Value); ok {
				func() {
					defer func() {
						if recover() != nil {
							ex.set(fr, v, OpaqueV{"init-skipped"})
						}
					}()
					ex.set(fr, v, ex.zero(v.Type()))
				}()
			}
			switch in.(type) {
			case *ssa.Jump, *ssa.If, *ssa.Return:
				panic(r)
			}
			fr.ip++
		}
	}()
	ex.exec(st, fr, in)
}

var initAllow = []string{modPath, "errors", "io", "bytes", "encoding/binary", "math/bits", "sort", "unicode/utf8",
	"github.com/bytedance/gopkg/lang/span"}

func initAllowed(path string) bool {
	for _, a := range initAllow {
		if path == a || strings.HasPrefix(path, a+"/") {
			return true
		}
	}
	return false
}

// RunInit executes the package initializer of pkg (and of allow-listed dependencies) concretely
// and returns the resulting state.
func (ex *Exec) RunInit(pkgs []*ssa.Package) *State {
	st := &State{globals: map[*ssa.Global]int{}, pools: map[int][]Value{}, inited: map[*ssa.Package]bool{}}
	ex.initMode = true
	defer func() { ex.initMode = false }()
	for _, pkg := range pkgs {
		fn := pkg.Func("init")
		ex.pushFrame(st, fn, nil, nil)
		end := ex.runPath(st)
		if end.kind != "done" {
			panic(fmt.Sprintf("package init of %s ended with %s: %s at %s", pkg.Pkg.Path(), end.kind, end.msg, ex.site(st)))
		}
		if len(ex.work) > 0 {
			panic("package init forked")
		}
	}
	return st
}

func (ex *Exec) jump(st *State, fr *Frame, to *ssa.BasicBlock) {
	from := fr.block
	fr.visits[to.Index]++
	if int(fr.visits[to.Index]) > ex.unwind {
		panic(pathEnd{"truncated", fmt.Sprintf("unwind bound %d at %s block %d", ex.unwind, fr.fn, to.Index)})
	}
	// phis
	var vals []Value
	nphi := 0
	for _, in := range to.Instrs {
		phi, ok := in.(*ssa.Phi)
		if !ok {
			break
		}
		nphi++
		ei := -1
		for i, p := range to.Preds {
			if p == from {
				ei = i
				break
			}
		}
		vals = append(vals, ex.get(st, fr, phi.Edges[ei]))
	}
	for i := 0; i < nphi; i++ {
		ex.set(fr, to.Instrs[i].(*ssa.Phi), vals[i])
	}
	fr.prev = from
	fr.block = to
	fr.ip = nphi
}

func (ex *Exec) ret(st *State, fr *Frame, result Value) {
	st.frames = st.frames[:len(st.frames)-1]
	if len(st.frames) == 0 {
		return
	}
	caller := st.top()
	if fr.isDefer {
		return // caller re-executes RunDefers
	}
	if fr.isInit {
		return // caller re-executes the instruction that triggered init
	}
	in := caller.block.Instrs[caller.ip]
	if v, ok := in.(ssa.Value); ok {
		ex.set(caller, v, result)
	}
	caller.ip++
}

func (ex *Exec) exec(st *State, fr *Frame, in ssa.Instruction) {
	ts := ex.ts
	switch x := in.(type) {
	case *ssa.DebugRef:
		fr.ip++
	case *ssa.Jump:
		ex.jump(st, fr, fr.block.Succs[0])
	case *ssa.If:
		c := ex.term(ex.get(st, fr, x.Cond))
		if ex.decide(st, c) {
			ex.jump(st, fr, fr.block.Succs[0])
		} else {
			ex.jump(st, fr, fr.block.Succs[1])
		}
	case *ssa.Return:
		var res Value
		switch len(x.Results) {
		case 0:
			res = TupleV{}
		case 1:
			res = ex.get(st, fr, x.Results[0])
		default:
			tu := make(TupleV, len(x.Results))
			for i, r := range x.Results {
				tu[i] = ex.get(st, fr, r)
			}
			res = tu
		}
		ex.ret(st, fr, res)
	case *ssa.Panic:
		v := ex.get(st, fr, x.X)
		msg := "explicit panic"
		if iv, ok := v.(IfaceV); ok {
			if s, ok := iv.V.(StrV); ok {
				if cs, ok := ex.concreteStr(st, s); ok {
					msg = "panic: " + cs
				}
			} else if iv.T != nil {
				msg = "panic(" + iv.T.String() + ")"
			}
		}
		if ex.initMode {
			panic(pathEnd{"panic", msg})
		}
		ex.check(st, ts.True, "panic", msg)
	case *ssa.RunDefers:
		if n := len(fr.defers); n > 0 {
			d := fr.defers[n-1]
			fr.defers = fr.defers[:n-1]
			ex.callValue(st, fr, d.fn, d.args, d.call, true)
		} else {
			fr.ip++
		}
	case *ssa.Defer:
		fnv, args := ex.prepareCall(st, fr, &x.Call)
		fr.defers = append(fr.defers, deferCall{fn: fnv, args: args, call: &x.Call})
		fr.ip++
	case *ssa.Go:
		panic(unsupported("go statement"))
	case *ssa.Send:
		panic(unsupported("channel send"))
	case *ssa.Select:
		panic(unsupported("select"))
	case *ssa.Store:
		p := ex.get(st, fr, x.Addr).(PtrV)
		v := ex.get(st, fr, x.Val)
		ex.store(st, p, v, x.Val.Type())
		fr.ip++
	case *ssa.MapUpdate:
		ex.mapUpdate(st, ex.get(st, fr, x.Map).(MapV), ex.get(st, fr, x.Key), ex.get(st, fr, x.Value))
		fr.ip++
	case *ssa.Call:
		fnv, args := ex.prepareCall(st, fr, &x.Call)
		ex.callValue(st, fr, fnv, args, &x.Call, false)
	case ssa.Value:
		v := ex.eval(st, fr, x)
		ex.set(fr, x, v)
		fr.ip++
	default:
		panic(unsupported(fmt.Sprintf("instruction %T", in)))
	}
}

// prepareCall evaluates callee and arguments. For invoke-mode calls the receiver is args[0].
func (ex *Exec) prepareCall(st *State, fr *Frame, c *ssa.CallCommon) (Value, []Value) {
	var args []Value
	if c.IsInvoke() {
		recv := ex.get(st, fr, c.Value)
		iv, ok := recv.(IfaceV)
		if !ok {
			panic(unsupported(fmt.Sprintf("invoke on %T", recv)))
		}
		if iv.T == nil {
			ex.check(st, ex.ts.True, "panic", "nil interface method call "+c.Method.Name())
		}
		args = append(args, iv)
		for _, a := range c.Args {
			args = append(args, ex.get(st, fr, a))
		}
		return nil, args
	}
	for _, a := range c.Args {
		args = append(args, ex.get(st, fr, a))
	}
	if b, ok := c.Value.(*ssa.Builtin); ok {
		return OpaqueV{"builtin " + b.Name()}, args
	}
	return ex.get(st, fr, c.Value), args
}

func (ex *Exec) callValue(st *State, fr *Frame, fnv Value, args []Value, c *ssa.CallCommon, isDefer bool) {
	finish := func(res Value) {
		if isDefer {
			return // stay on RunDefers
		}
		if v, ok := fr.block.Instrs[fr.ip].(ssa.Value); ok {
			ex.set(fr, v, res)
		}
		fr.ip++
	}
	if c.IsInvoke() {
		iv := args[0].(IfaceV)
		if mk, ok := iv.V.(OpaqueV); ok && strings.HasPrefix(mk.What, "rtype:") {
			// reflectlite.Type methods answered from go/types
			if c.Method.Name() == "Comparable" {
				finish(ex.ts.Bool(types.Comparable(iv.T)))
				return
			}
			panic(unsupported("reflect type method " + c.Method.Name()))
		}
		fn := ex.prog.LookupMethod(iv.T, c.Method.Pkg(), c.Method.Name())
		if fn == nil {
			panic(unsupported(fmt.Sprintf("method %s not found on %s", c.Method.Name(), iv.T)))
		}
		args[0] = iv.V
		ex.callFn(st, fr, fn, args, nil, isDefer, finish)
		return
	}
	switch f := fnv.(type) {
	case OpaqueV:
		if strings.HasPrefix(f.What, "builtin ") {
			res := ex.builtin(st, fr, strings.TrimPrefix(f.What, "builtin "), args, c)
			finish(res)
			return
		}
		panic(unsupported("call of " + f.What))
	case FuncV:
		if f.Fn == nil {
			ex.check(st, ex.ts.True, "panic", "call of nil func")
		}
		ex.callFn(st, fr, f.Fn, args, f.Bind, isDefer, finish)
		return
	}
	panic(unsupported(fmt.Sprintf("call of %T", fnv)))
}

func (ex *Exec) callFn(st *State, fr *Frame, fn *ssa.Function, args []Value, bind []Value, isDefer bool, finish func(Value)) {
	if res, handled := ex.stub(st, fr, fn, args, isDefer); handled {
		if res != nil {
			finish(res)
		}
		return
	}
	if ex.stats.Funcs[fn.String()] == 0 {
		ex.stats.Funcs[fn.String()] = 0
	}
	ex.stats.Funcs[fn.String()]++
	nf := ex.pushFrame(st, fn, args, bind)
	nf.isDefer = isDefer
}

func (ex *Exec) concreteStr(st *State, s StrV) (string, bool) {
	if s.Len.Op != OConst {
		return "", false
	}
	if s.Len.K == 0 {
		return "", true
	}
	if s.Off.Op != OConst || s.Len.K > 4096 {
		return "", false
	}
	o := ex.obj(st, s.Obj)
	b := make([]byte, s.Len.K)
	for i := range b {
		t := ex.ts.Select(o.arr, ex.ts.Const(64, s.Off.K+uint64(i)))
		if t.Op != OConst {
			return "", false
		}
		b[i] = byte(t.K)
	}
	return string(b), true
}

// ensureInit runs the package initializer of pkg on first access to one of its globals.
func (ex *Exec) ensureInit(st *State, pkg *ssa.Package) {
	// package initialisation is performed eagerly by the driver (RunInit); nothing to do lazily.
}
