package main

import (
	"golang.org/x/tools/go/ssa"
	"flag"
	"fmt"
	"os"
	"sort"
	"strings"
	"time"
)

func main() {
	if len(os.Args) < 2 {
		fmt.Println("usage: vcheck dev|run|replay ...")
		os.Exit(2)
	}
	switch os.Args[1] {
	case "dev":
		devMain(os.Args[2:])
	case "run":
		os.Exit(runMain(os.Args[2:]))
	case "replay":
		os.Exit(replayMain(os.Args[2:]))
	default:
		fmt.Println("unknown command")
		os.Exit(2)
	}
}

func devMain(args []string) {
	fs := flag.NewFlagSet("dev", flag.ExitOnError)
	trace := fs.Bool("trace", false, "trace")
	params := fs.String("p", "", "params k=v,k=v")
	solver := fs.String("solver", "z3", "")
	fs.Parse(args)
	rel, fname := fs.Arg(0), fs.Arg(1)
	t0 := time.Now()
	l, err := loadProgram([]string{rel})
	if err != nil {
		fmt.Println(err)
		os.Exit(2)
	}
	fmt.Printf("loaded in %v\n", time.Since(t0))
	ex, err := NewExec(l.prog, *solver, 20000)
	if err != nil {
		panic(err)
	}
	defer ex.Close()
	pkg := l.pkgs[rel]
	t1 := time.Now()
	st0 := ex.RunInit([]*ssa.Package{pkg})
	fmt.Printf("init in %v, %d instrs; skips: %v\n", time.Since(t1), ex.stats.Instrs, ex.stats.EndSites)
	ex.resetStats()
	for _, kv := range strings.Split(*params, ",") {
		if kv == "" {
			continue
		}
		p := strings.SplitN(kv, "=", 2)
		var v int
		fmt.Sscan(p[1], &v)
		ex.params[p[0]] = v
	}
	ex.trace = *trace
	ex.harness = fname
	fn := pkg.Func(fname)
	if fn == nil {
		fmt.Println("no such harness", fname)
		os.Exit(2)
	}
	t2 := time.Now()
	ex.Explore(st0, fn, nil)
	q, sa, us, uk, stt := ex.solverCounts()
	fmt.Printf("explored in %v: paths=%v instrs=%d forks=%d queries=%d (sat %d unsat %d unknown %d) solver=%v fallbacks=%d/%d\n", time.Since(t2), ex.stats.Paths,
		ex.stats.Instrs, ex.stats.Forks, q, sa, us, uk, stt, ex.stats.Fallbacks, ex.stats.Fallbacks2)
	var ks []string
	for k, v := range ex.stats.EndSites {
		ks = append(ks, fmt.Sprintf("%s x%d", k, v))
	}
	sort.Strings(ks)
	for _, k := range ks {
		fmt.Println("  end:", k)
	}
	for k, v := range ex.stats.Labels {
		fmt.Println("  label:", k, v)
	}
	for k, v := range ex.stats.Assumptions {
		fmt.Println("  assumption:", k, v)
	}
	for k, v := range ex.stats.Undischarged {
		fmt.Println("  undischarged:", k, v)
	}
	for _, v := range ex.viols {
		fmt.Printf("VIOL %s %q at %s\n", v.Kind, v.Msg, v.Site)
		for _, d := range v.Draws {
			if d.Kind == "int" {
				fmt.Printf("    %s = %d (%#x)\n", d.Name, int64(d.Val), d.Val)
			} else {
				b := d.Bytes
				if len(b) > 64 {
					b = b[:64]
				}
				fmt.Printf("    %s = len %d %x\n", d.Name, d.Len, b)
			}
		}
		fmt.Printf("    stack: %v\n", v.Stack)
	}
}
