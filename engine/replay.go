package main

import (
	"encoding/json"
	"fmt"
	"os"
)

// replayMain re-runs a recorded counterexample natively against the current /repo tree.
// exit 1: the violation reproduces; exit 0: it does not; exit 2: cannot run.
func replayMain(args []string) int {
	if len(args) < 1 {
		fmt.Println("usage: vcheck replay <path>")
		return 2
	}
	b, err := os.ReadFile(args[0])
	if err != nil {
		fmt.Println("cannot read replay file:", err)
		return 2
	}
	var rf ReplayFile
	if err := json.Unmarshal(b, &rf); err != nil {
		fmt.Println("bad replay file:", err)
		return 2
	}
	nb, err := newNativeBuilder()
	if err != nil {
		fmt.Println(err)
		return 2
	}
	defer nb.Close()
	fmt.Printf("replaying %s: harness %s in %s, expecting %s\n", rf.Property, rf.Harness, rf.Pkg, rf.Expect)
	ok, observable, detail := nb.confirm(&rf, args[0])
	if !observable {
		fmt.Println("a native run cannot show this violation (" + detail + "); replaying it in the executor with the recorded inputs")
		return replaySymbolic(&rf)
	}
	fmt.Println(detail)
	if ok {
		fmt.Printf("VIOLATION property=%s replay=%s\n", rf.Property, args[0])
		return 1
	}
	fmt.Println("the recorded violation does not reproduce on the current tree")
	return 0
}

// replaySymbolic re-executes the harness in the engine with the recorded draws as concrete inputs.
func replaySymbolic(rf *ReplayFile) int {
	loaded, err := loadProgram([]string{rf.Pkg})
	if err != nil {
		fmt.Println(err)
		return 2
	}
	ex, err := NewExec(loaded.prog, "z3", 20000)
	if err != nil {
		fmt.Println(err)
		return 2
	}
	defer ex.Close()
	viols, end := concreteRun(ex, loaded, rf.Pkg, rf.Harness, rf.Params, rf.Draws)
	for _, v := range viols {
		if v.Kind == rf.Kind && v.Msg == rf.Msg {
			fmt.Printf("reproduced in the executor: %s %q at %s\n", v.Kind, v.Msg, v.Site)
			fmt.Printf("VIOLATION property=%s replay=<this file>\n", rf.Property)
			return 1
		}
	}
	fmt.Printf("the recorded violation does not reproduce on the current tree (the execution went past the recorded point without it; path ended: %s)\n", end)
	return 0
}
