package main

import (
	"fmt"
	"go/token"
	"go/types"
	"math"

	"golang.org/x/tools/go/ssa"
)

func (ex *Exec) eval(st *State, fr *Frame, v ssa.Value) Value {
	ts := ex.ts
	switch x := v.(type) {
	case *ssa.Alloc:
		t := x.Type().(*types.Pointer).Elem()
		id := ex.newCellObj(st, t)
		if ex.obj(st, id).kind == KBytes {
			return PtrV{Obj: id, Off: ts.Const(64, 0), Safe: true}
		}
		return PtrV{Obj: id}
	case *ssa.BinOp:
		return ex.binop(st, x.Op, ex.get(st, fr, x.X), ex.get(st, fr, x.Y), x.X.Type(), x.Y.Type())
	case *ssa.UnOp:
		a := ex.get(st, fr, x.X)
		switch x.Op {
		case token.MUL:
			return ex.load(st, a.(PtrV), x.Type())
		case token.SUB:
			if isFloat(x.Type()) {
				t := ex.term(a)
				if t.Op != OConst {
					panic(unsupported("symbolic float negation"))
				}
				return ts.Const(64, math.Float64bits(-math.Float64frombits(t.K)))
			}
			return ts.Neg(ex.term(a))
		case token.XOR:
			return ts.Not(ex.term(a))
		case token.NOT:
			return ts.BNot(ex.term(a))
		}
		panic(unsupported("unop " + x.Op.String()))
	case *ssa.Convert:
		return ex.convert(st, ex.get(st, fr, x.X), x.X.Type(), x.Type())
	case *ssa.MultiConvert:
		return ex.convert(st, ex.get(st, fr, x.X), x.X.Type(), x.Type())
	case *ssa.ChangeType:
		return ex.get(st, fr, x.X)
	case *ssa.ChangeInterface:
		return ex.get(st, fr, x.X)
	case *ssa.MakeInterface:
		return IfaceV{T: x.X.Type(), V: ex.get(st, fr, x.X)}
	case *ssa.TypeAssert:
		return ex.typeAssert(st, ex.get(st, fr, x.X).(IfaceV), x)
	case *ssa.Extract:
		return ex.get(st, fr, x.Tuple).(TupleV)[x.Index]
	case *ssa.Field:
		return ex.get(st, fr, x.X).(StructV)[x.Field]
	case *ssa.FieldAddr:
		p := ex.get(st, fr, x.X).(PtrV)
		if p.IsNil() {
			ex.check(st, ts.True, "panic", "nil pointer dereference (field address)")
		}
		if p.Wrap > 0 {
			if x.Field != 0 {
				panic(unsupported("field of reinterpreted pointer"))
			}
			q := p
			q.Wrap--
			return q
		}
		q := PtrV{Obj: p.Obj, Path: append(append([]int32(nil), p.Path...), int32(x.Field)), Sym: p.Sym, SymPos: p.SymPos}
		return q
	case *ssa.Index:
		a := ex.get(st, fr, x.X)
		i := ex.term(ex.get(st, fr, x.Index))
		switch av := a.(type) {
		case ArrayV:
			i = ex.toInt(i, x.Index.Type())
			ex.check(st, ts.BNot(ts.Ult(i, ts.Const(64, uint64(len(av))))), "panic", "index out of range")
			k := ex.concretize(st, i, 64, "array index")
			return av[k]
		case StrV:
			return ex.strIndex(st, av, ex.toInt(i, x.Index.Type()))
		}
		panic(unsupported(fmt.Sprintf("index of %T", a)))
	case *ssa.IndexAddr:
		base := ex.get(st, fr, x.X)
		i := ex.toInt(ex.term(ex.get(st, fr, x.Index)), x.Index.Type())
		return ex.indexAddr(st, base, i, x.X.Type())
	case *ssa.Lookup:
		m := ex.get(st, fr, x.X)
		if s, ok := m.(StrV); ok {
			return ex.strIndex(st, s, ex.toInt(ex.term(ex.get(st, fr, x.Index)), x.Index.Type()))
		}
		val, ok := ex.mapLookup(st, m.(MapV), ex.get(st, fr, x.Index), x.X.Type().Underlying().(*types.Map).Elem())
		if x.CommaOk {
			return TupleV{val, ok}
		}
		return val
	case *ssa.MakeMap:
		id := ex.addObj(st, &Object{kind: KMap, typ: x.Type()})
		if x.Reserve != nil {
			r := ex.toInt(ex.term(ex.get(st, fr, x.Reserve)), x.Reserve.Type())
			ex.allocAssume(st, r, "make(map, n)")
		}
		return MapV{Obj: id}
	case *ssa.MakeSlice:
		n := ex.toInt(ex.term(ex.get(st, fr, x.Len)), x.Len.Type())
		c := ex.toInt(ex.term(ex.get(st, fr, x.Cap)), x.Cap.Type())
		return ex.makeSlice(st, x.Type().Underlying().(*types.Slice).Elem(), n, c, true)
	case *ssa.MakeClosure:
		b := make([]Value, len(x.Bindings))
		for i, bv := range x.Bindings {
			b[i] = ex.get(st, fr, bv)
		}
		return FuncV{Fn: x.Fn.(*ssa.Function), Bind: b}
	case *ssa.Slice:
		return ex.sliceOp(st, fr, x)
	case *ssa.Range:
		m := ex.get(st, fr, x.X)
		mv, ok := m.(MapV)
		if !ok {
			panic(unsupported("range over string"))
		}
		return ex.mapRange(st, mv)
	case *ssa.Next:
		if x.IsString {
			panic(unsupported("range over string"))
		}
		it := ex.get(st, fr, x.Iter).(RangeV)
		tu := x.Type().(*types.Tuple)
		if it.Pos >= len(it.Keys) {
			return TupleV{ts.False, ex.zeroOrInvalid(tu.At(1).Type()), ex.zeroOrInvalid(tu.At(2).Type())}
		}
		// iterators are path-local values; copy-on-advance keeps forks independent
		p := it.Pos
		nit := RangeV{Keys: it.Keys, Vals: it.Vals, Pos: p + 1}
		ex.set(fr, x.Iter, nit)
		return TupleV{ts.True, it.Keys[p], it.Vals[p]}
	case *ssa.SliceToArrayPointer:
		panic(unsupported("slice to array pointer"))
	case *ssa.Phi:
		panic("internal: phi evaluated outside jump")
	}
	panic(unsupported(fmt.Sprintf("value instruction %T", v)))
}

func (ex *Exec) zeroOrInvalid(t types.Type) Value {
	if b, ok := t.(*types.Basic); ok && b.Kind() == types.Invalid {
		return ex.ts.False
	}
	return ex.zero(t)
}

// toInt widens an index/length term to 64 bits according to its Go type.
func (ex *Exec) toInt(t *Term, typ types.Type) *Term {
	if t.W == 64 {
		return t
	}
	if isSigned(typ) {
		return ex.ts.SExt(t, 64)
	}
	return ex.ts.ZExt(t, 64)
}

func (ex *Exec) allocAssume(st *State, n *Term, what string) {
	if n.Op == OConst {
		return
	}
	ts := ex.ts
	c := ts.Sle(n, ts.Const(64, uint64(ex.allocCap)))
	if !ex.feasible(st, ts.BNot(c)) {
		return
	}
	ex.stats.Assumptions[fmt.Sprintf("alloc-cap: %s <= %d at %s", what, ex.allocCap, ex.site(st))]++
	ex.addPC(st, c)
	if !ex.feasible(st, ts.True) {
		panic(pathEnd{"infeasible", "alloc cap"})
	}
}

func (ex *Exec) makeSlice(st *State, elem types.Type, n, c *Term, zeroed bool) Value {
	ts := ex.ts
	// len < 0 or len > cap panics
	ex.check(st, ts.BOr(ts.Slt(n, ts.Const(64, 0)), ts.Slt(c, n)), "panic", "makeslice: len out of range")
	if isByteElem(elem) {
		ex.allocAssume(st, c, "make([]byte, n)")
		var arr *Arr
		if zeroed {
			arr = ts.FillArr(ts.Const(8, 0))
		} else {
			arr = ts.BaseArr("dirty")
		}
		id := ex.newBytesObj(st, arr, c, types.NewSlice(elem))
		return SliceV{Obj: id, Off: ts.Const(64, 0), Len: n, Cap: c}
	}
	ex.allocAssume(st, c, "make([]T, n)")
	if c.Op == OConst && c.K <= 4096 {
		root := &Cell{kids: make([]*Cell, c.K), isArr: true, elemT: elem}
		for i := range root.kids {
			root.kids[i] = ex.newCell(elem)
		}
		id := ex.addObj(st, &Object{kind: KCells, root: root, typ: types.NewSlice(elem)})
		return SliceV{Obj: id, Off: ts.Const(64, 0), Len: n, Cap: c}
	}
	root := &Cell{sparse: map[int64]*Cell{}, sparseLen: c, isArr: true, elemT: elem}
	id := ex.addObj(st, &Object{kind: KCells, root: root, typ: types.NewSlice(elem)})
	return SliceV{Obj: id, Off: ts.Const(64, 0), Len: n, Cap: c}
}

func (ex *Exec) strIndex(st *State, s StrV, i *Term) Value {
	ts := ex.ts
	ex.check(st, ts.BNot(ts.Ult(i, s.Len)), "panic", "string index out of range")
	o := ex.obj(st, s.Obj)
	return ts.Select(o.arr, ts.Add(s.Off, i))
}

func (ex *Exec) cellByPath(st *State, o *Object, path []int32) *Cell {
	c := o.root
	for _, k := range path {
		c = ex.cellAt(c, int64(k))
	}
	return c
}

func (ex *Exec) indexAddr(st *State, base Value, i *Term, bt types.Type) Value {
	ts := ex.ts
	switch b := base.(type) {
	case SliceV:
		ex.check(st, ts.BNot(ts.Ult(i, b.Len)), "panic", "index out of range")
		if b.Obj == 0 {
			panic(pathEnd{"infeasible", "index of nil slice"})
		}
		o := ex.obj(st, b.Obj)
		if o.kind == KBytes {
			return PtrV{Obj: b.Obj, Off: ts.Add(b.Off, i), Safe: true}
		}
		idx := ts.Add(b.Off, i)
		if idx.Op != OConst && ex.symIndexable(ex.cellByPath(st, o, b.Path)) {
			return PtrV{Obj: b.Obj, Path: append(append([]int32(nil), b.Path...), -1), Sym: idx, SymPos: len(b.Path)}
		}
		k := ex.concretize(st, idx, 64, "slice index")
		return PtrV{Obj: b.Obj, Path: append(append([]int32(nil), b.Path...), int32(k))}
	case PtrV:
		if b.IsNil() {
			ex.check(st, ts.True, "panic", "nil pointer dereference (index)")
		}
		at := bt.Underlying().(*types.Pointer).Elem().Underlying().(*types.Array)
		ex.check(st, ts.BNot(ts.Ult(i, ts.Const(64, uint64(at.Len())))), "panic", "index out of range")
		o := ex.obj(st, b.Obj)
		if o.kind == KBytes {
			return PtrV{Obj: b.Obj, Off: ts.Add(b.Off, i), Safe: true}
		}
		if i.Op != OConst && b.Sym == nil && ex.symIndexable(ex.cellByPath(st, o, b.Path)) {
			return PtrV{Obj: b.Obj, Path: append(append([]int32(nil), b.Path...), -1), Sym: i, SymPos: len(b.Path)}
		}
		k := ex.concretize(st, i, 64, "array index")
		return PtrV{Obj: b.Obj, Path: append(append([]int32(nil), b.Path...), int32(k))}
	}
	panic(unsupported(fmt.Sprintf("indexaddr on %T", base)))
}

// ---------------------------------------------------------------- load / store

func (ex *Exec) checkLive(st *State, o *Object, what string) {
	if o.freed {
		ex.check(st, ex.ts.True, "uaf", what+" of recycled buffer ("+o.tag+")")
	}
}

func (ex *Exec) rawCheck(st *State, o *Object, off *Term, n uint64, what string) {
	ts := ex.ts
	// off + n <= size without wrap
	end := ts.Add(off, ts.Const(64, n))
	bad := ts.BOr(ts.Ult(o.size, end), ts.Ult(end, off))
	ex.check(st, bad, "oob", what+" outside the object it was derived from")
}

func (ex *Exec) load(st *State, p PtrV, t types.Type) Value {
	ts := ex.ts
	if p.IsNil() {
		ex.check(st, ts.True, "panic", "nil pointer dereference (load)")
	}
	o := ex.obj(st, p.Obj)
	ex.checkLive(st, o, "load")
	if o.kind == KBytes {
		if isByteArrayType(t) {
			panic(unsupported("load of whole byte array"))
		}
		w := widthOf(t)
		nb := uint64(w) / 8
		if w == 0 {
			nb = 1
		}
		if !(p.Safe && nb == 1) {
			ex.rawCheck(st, o, p.Off, nb, "raw load")
		}
		if w == 0 {
			return ts.BNot(ts.Eq(ts.Select(o.arr, p.Off), ts.Const(8, 0)))
		}
		r := ts.Select(o.arr, p.Off)
		for k := uint64(1); k < nb; k++ { // little endian
			r = ts.Concat(ts.Select(o.arr, ts.Add(p.Off, ts.Const(64, k))), r)
		}
		return r
	}
	if o.kind != KCells {
		panic(unsupported("load from map object"))
	}
	if p.Sym != nil {
		return ex.symLoad(st, o, p)
	}
	c := ex.cellByPath(st, o, p.Path)
	v := ex.cellLoad(c)
	// reinterpretation: *[]byte read as *string and similar header puns
	if sv, ok := v.(SliceV); ok && isString(t) {
		return StrV{Obj: sv.Obj, Off: sv.Off, Len: sv.Len}
	}
	return v
}

func (ex *Exec) store(st *State, p PtrV, v Value, t types.Type) {
	ts := ex.ts
	if p.IsNil() {
		ex.check(st, ts.True, "panic", "nil pointer dereference (store)")
	}
	o := ex.obj(st, p.Obj)
	ex.checkLive(st, o, "store")
	if o.readonly && !ex.initMode {
		ex.check(st, ts.True, "ownership", "store into caller-owned/read-only memory ("+o.tag+")")
	}
	if o.frozen && !ex.inAtomic && !trustedForShared(st.top().fn) {
		ex.check(st, ts.True, "race", "plain store to memory shared between instances ("+o.tag+")")
	}
	if o.kind == KBytes {
		if av, ok := v.(ArrayV); ok {
			// whole byte-array store (composite literal initialisers)
			ow := ex.objW(st, p.Obj)
			for i, e := range av {
				ow.arr = ts.Store(ow.arr, ts.Add(p.Off, ts.Const(64, uint64(i))), ex.term(e))
			}
			return
		}
		tv := ex.term(v)
		w := tv.W
		nb := uint64(w) / 8
		if w == 0 {
			tv = ts.Ite(tv, ts.Const(8, 1), ts.Const(8, 0))
			nb = 1
		}
		if !(p.Safe && nb == 1) {
			ex.rawCheck(st, o, p.Off, nb, "raw store")
		}
		ow := ex.objW(st, p.Obj)
		for k := uint64(0); k < nb; k++ {
			ow.arr = ts.Store(ow.arr, ts.Add(p.Off, ts.Const(64, k)), ts.Extract(tv, uint8(8*k), 8))
		}
		return
	}
	ow := ex.objW(st, p.Obj)
	if p.Sym != nil {
		ex.symStore(st, ow, p, v)
		return
	}
	c := ex.cellByPath(st, ow, p.Path)
	ex.cellStore(c, v)
}

// trustedForShared: packages whose internal synchronisation is trusted (documented thread-safe)
func trustedForShared(fn *ssa.Function) bool {
	if fn.Pkg == nil {
		return false
	}
	switch fn.Pkg.Pkg.Path() {
	case "github.com/bytedance/gopkg/lang/span", "github.com/bytedance/gopkg/lang/mcache", "sync", "sync/atomic":
		return true
	}
	return false
}

// ---- symbolic element index into small dense arrays of scalar cells: ite instead of forking

func scalarCells(c *Cell) bool {
	if c.sparse != nil {
		return false
	}
	if c.kids == nil {
		_, ok := c.val.(*Term)
		return ok
	}
	for _, k := range c.kids {
		if !scalarCells(k) {
			return false
		}
	}
	return true
}

func (ex *Exec) symIndexable(arr *Cell) bool {
	if arr.sparse != nil || !arr.isArr || len(arr.kids) == 0 || len(arr.kids) > 40 {
		return false
	}
	for _, k := range arr.kids {
		if !scalarCells(k) {
			return false
		}
	}
	return true
}

func (ex *Exec) iteValue(c *Term, a, b Value) Value {
	switch av := a.(type) {
	case *Term:
		return ex.ts.Ite(c, av, b.(*Term))
	case StructV:
		bv := b.(StructV)
		r := make(StructV, len(av))
		for i := range av {
			r[i] = ex.iteValue(c, av[i], bv[i])
		}
		return r
	case ArrayV:
		bv := b.(ArrayV)
		r := make(ArrayV, len(av))
		for i := range av {
			r[i] = ex.iteValue(c, av[i], bv[i])
		}
		return r
	}
	panic(unsupported(fmt.Sprintf("ite over %T", a)))
}

func (ex *Exec) symCells(st *State, o *Object, p PtrV) []*Cell {
	arr := ex.cellByPath(st, o, p.Path[:p.SymPos])
	out := make([]*Cell, len(arr.kids))
	for k := range arr.kids {
		c := arr.kids[k]
		for _, f := range p.Path[p.SymPos+1:] {
			c = ex.cellAt(c, int64(f))
		}
		out[k] = c
	}
	return out
}

func (ex *Exec) symLoad(st *State, o *Object, p PtrV) Value {
	cells := ex.symCells(st, o, p)
	var r Value
	for k := len(cells) - 1; k >= 0; k-- {
		v := ex.cellLoad(cells[k])
		if r == nil {
			r = v
			continue
		}
		r = ex.iteValue(ex.ts.Eq(p.Sym, ex.ts.Const(64, uint64(k))), v, r)
	}
	return r
}

func (ex *Exec) symStore(st *State, ow *Object, p PtrV, v Value) {
	cells := ex.symCells(st, ow, p)
	for k, c := range cells {
		old := ex.cellLoad(c)
		ex.cellStore(c, ex.iteValue(ex.ts.Eq(p.Sym, ex.ts.Const(64, uint64(k))), v, old))
	}
}

// ---------------------------------------------------------------- slicing

func (ex *Exec) sliceOp(st *State, fr *Frame, x *ssa.Slice) Value {
	ts := ex.ts
	base := ex.get(st, fr, x.X)
	opt := func(v ssa.Value) *Term {
		if v == nil {
			return nil
		}
		return ex.toInt(ex.term(ex.get(st, fr, v)), v.Type())
	}
	lo, hi, mx := opt(x.Low), opt(x.High), opt(x.Max)
	if lo == nil {
		lo = ts.Const(64, 0)
	}
	switch b := base.(type) {
	case StrV:
		if hi == nil {
			hi = b.Len
		}
		ex.check(st, ts.BOr(ts.Ult(hi, lo), ts.Ult(b.Len, hi)), "panic", "slice bounds out of range (string)")
		return StrV{Obj: b.Obj, Off: ts.Add(b.Off, lo), Len: ts.Sub(hi, lo)}
	case SliceV:
		if hi == nil {
			hi = b.Len
		}
		if mx == nil {
			mx = b.Cap
		}
		bad := ts.BOr(ts.Ult(hi, lo), ts.BOr(ts.Ult(mx, hi), ts.Ult(b.Cap, mx)))
		ex.check(st, bad, "panic", "slice bounds out of range")
		if b.Obj == 0 {
			return b
		}
		return SliceV{Obj: b.Obj, Path: b.Path, Off: ts.Add(b.Off, lo), Len: ts.Sub(hi, lo), Cap: ts.Sub(mx, lo)}
	case PtrV:
		if b.IsNil() {
			ex.check(st, ts.True, "panic", "nil pointer dereference (slice of array)")
		}
		at := x.X.Type().Underlying().(*types.Pointer).Elem().Underlying().(*types.Array)
		n := ts.Const(64, uint64(at.Len()))
		if hi == nil {
			hi = n
		}
		if mx == nil {
			mx = n
		}
		bad := ts.BOr(ts.Ult(hi, lo), ts.BOr(ts.Ult(mx, hi), ts.Ult(n, mx)))
		ex.check(st, bad, "panic", "slice bounds out of range (array)")
		o := ex.obj(st, b.Obj)
		if o.kind == KBytes {
			return SliceV{Obj: b.Obj, Off: ts.Add(b.Off, lo), Len: ts.Sub(hi, lo), Cap: ts.Sub(mx, lo)}
		}
		return SliceV{Obj: b.Obj, Path: b.Path, Off: lo, Len: ts.Sub(hi, lo), Cap: ts.Sub(mx, lo)}
	}
	panic(unsupported(fmt.Sprintf("slice of %T", base)))
}

// ---------------------------------------------------------------- conversions

func (ex *Exec) convert(st *State, v Value, from, to types.Type) Value {
	ts := ex.ts
	fu, tu := from.Underlying(), to.Underlying()
	if tp, ok := fu.(*types.TypeParam); ok {
		_ = tp
		panic(unsupported("conversion from type parameter"))
	}
	switch {
	case isUnsafePtr(tu):
		switch p := v.(type) {
		case PtrV:
			return p
		case *Term:
			// uintptr -> unsafe.Pointer: only the null pointer is supported
			if p.Op == OConst && p.K == 0 {
				return PtrV{}
			}
			panic(unsupported("uintptr to unsafe.Pointer"))
		}
	case isUnsafePtr(fu):
		if _, ok := tu.(*types.Pointer); ok {
			p := v.(PtrV)
			return ex.reinterpret(st, p, to)
		}
		if b, ok := tu.(*types.Basic); ok && b.Kind() == types.Uintptr {
			p := v.(PtrV)
			if p.IsNil() {
				return ts.Const(64, 0)
			}
			o := ex.obj(st, p.Obj)
			if o.kind != KBytes {
				return ts.Fresh(64, "cellAddr")
			}
			return ts.Add(ex.objAddr(st, p.Obj), p.Off)
		}
	}
	if _, ok := fu.(*types.Pointer); ok {
		if _, ok := tu.(*types.Pointer); ok {
			return v
		}
	}
	fb, fok := fu.(*types.Basic)
	tb, tok := tu.(*types.Basic)
	if fok && tok {
		switch {
		case fb.Info()&types.IsInteger != 0 && tb.Info()&types.IsInteger != 0:
			t := ex.term(v)
			w := widthOf(to)
			if w <= t.W {
				return ts.Extract(t, 0, w)
			}
			if isSigned(from) {
				return ts.SExt(t, w)
			}
			return ts.ZExt(t, w)
		case fb.Info()&types.IsInteger != 0 && tb.Info()&types.IsFloat != 0:
			t := ex.term(v)
			if t.Op != OConst {
				panic(unsupported("symbolic int to float"))
			}
			var f float64
			if isSigned(from) {
				f = float64(t.SVal())
			} else {
				f = float64(t.K)
			}
			if tb.Kind() == types.Float32 {
				return ts.Const(32, uint64(math.Float32bits(float32(f))))
			}
			return ts.Const(64, math.Float64bits(f))
		case fb.Info()&types.IsFloat != 0 && tb.Info()&types.IsInteger != 0:
			t := ex.term(v)
			if t.Op != OConst {
				panic(unsupported("symbolic float to int"))
			}
			f := floatOf(t)
			if isSigned(to) {
				return ts.Const(widthOf(to), uint64(int64(f)))
			}
			return ts.Const(widthOf(to), uint64(f))
		case fb.Info()&types.IsFloat != 0 && tb.Info()&types.IsFloat != 0:
			t := ex.term(v)
			if t.W == widthOf(to) {
				return t
			}
			if t.Op != OConst {
				panic(unsupported("symbolic float conversion"))
			}
			f := floatOf(t)
			if tb.Kind() == types.Float32 {
				return ts.Const(32, uint64(math.Float32bits(float32(f))))
			}
			return ts.Const(64, math.Float64bits(f))
		case fb.Info()&types.IsString != 0 && tb.Info()&types.IsString != 0:
			return v
		case fb.Info()&types.IsInteger != 0 && tb.Info()&types.IsString != 0:
			panic(unsupported("int to string conversion"))
		}
	}
	// string <-> []byte
	if isString(from) {
		if sl, ok := tu.(*types.Slice); ok && isByteElem(sl.Elem()) {
			s := v.(StrV)
			id := ex.copyBytes(st, s.Obj, s.Off, s.Len)
			return SliceV{Obj: id, Off: ts.Const(64, 0), Len: s.Len, Cap: s.Len}
		}
	}
	if isString(to) {
		if sl, ok := fu.(*types.Slice); ok && isByteElem(sl.Elem()) {
			s := v.(SliceV)
			if s.Len.Op == OConst && s.Len.K == 0 {
				return StrV{Off: ts.Const(64, 0), Len: ts.Const(64, 0)}
			}
			id := ex.copyBytes(st, s.Obj, s.Off, s.Len)
			ex.obj(st, id).readonly = true
			ex.obj(st, id).tag = "string data"
			return StrV{Obj: id, Off: ts.Const(64, 0), Len: s.Len}
		}
	}
	if _, ok := fu.(*types.Slice); ok {
		if _, ok := tu.(*types.Slice); ok {
			return v
		}
	}
	panic(unsupported(fmt.Sprintf("conversion %s -> %s", from, to)))
}

func floatOf(t *Term) float64 {
	if t.W == 32 {
		return float64(math.Float32frombits(uint32(t.K)))
	}
	return math.Float64frombits(t.K)
}

// copyBytes allocates a fresh object holding src[off:off+n] (n may be symbolic).
func (ex *Exec) copyBytes(st *State, src int, off, n *Term) int {
	ts := ex.ts
	var arr *Arr
	if src == 0 {
		arr = ts.FillArr(ts.Const(8, 0))
	} else {
		so := ex.obj(st, src)
		ex.checkLive(st, so, "copy")
		arr = ts.Copy(ts.FillArr(ts.Const(8, 0)), ts.Const(64, 0), so.arr, off, n)
	}
	return ex.newBytesObj(st, arr, n, nil)
}

// reinterpret handles unsafe.Pointer -> *T
func (ex *Exec) reinterpret(st *State, p PtrV, to types.Type) Value {
	if p.IsNil() {
		return p
	}
	o := ex.obj(st, p.Obj)
	if o.kind == KBytes {
		q := p
		q.Safe = false
		return q
	}
	elem := to.Underlying().(*types.Pointer).Elem()
	// pointer to a cell: allowed when the target type is layout-compatible by construction
	c := ex.cellByPath(st, o, p.Path)
	if s, ok := elem.Underlying().(*types.Struct); ok && c.kids != nil && !c.isArr {
		if s.NumFields() == len(c.kids) {
			return p // same shape (e.g. slice header structs are handled by stubs, not here)
		}
		if s.NumFields() == 1 {
			q := p
			q.Wrap++
			return q
		}
	}
	if c.kids == nil {
		// leaf cell: string <-> []byte header puns are resolved at load time
		return p
	}
	if s, ok := elem.Underlying().(*types.Struct); ok && s.NumFields() == 1 {
		q := p
		q.Wrap++
		return q
	}
	panic(unsupported(fmt.Sprintf("pointer reinterpretation to %s", to)))
}

// ---------------------------------------------------------------- type assertions

func (ex *Exec) implements(T types.Type, iface *types.Interface) bool {
	if T == nil {
		return false
	}
	return types.Implements(T, iface)
}

func (ex *Exec) typeAssert(st *State, iv IfaceV, x *ssa.TypeAssert) Value {
	ok := false
	var res Value
	if it, isIface := x.AssertedType.Underlying().(*types.Interface); isIface {
		ok = iv.T != nil && ex.implements(iv.T, it)
		if ok {
			res = iv
		} else {
			res = IfaceV{}
		}
	} else {
		ok = iv.T != nil && types.Identical(iv.T, x.AssertedType)
		if ok {
			res = iv.V
		} else {
			res = ex.zero(x.AssertedType)
		}
	}
	if x.CommaOk {
		return TupleV{res, ex.ts.Bool(ok)}
	}
	if !ok {
		ex.check(st, ex.ts.True, "panic", fmt.Sprintf("interface conversion: %v is not %s", iv.T, x.AssertedType))
	}
	return res
}
