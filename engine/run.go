package main

import (
	"encoding/json"
	"flag"
	"fmt"
	"os"
	"path/filepath"
	"runtime"
	"sort"
	"strconv"
	"strings"
	"sync"
	"time"

	"golang.org/x/tools/go/ssa"
)

type HarnessSpec struct {
	Prop     string         `json:"prop"`
	Also     []string       `json:"also,omitempty"` // other properties this harness contributes evidence to
	Pkg      string         `json:"pkg"`
	Fn       string         `json:"fn"`
	Quick    map[string]int `json:"quick"`
	Thorough map[string]int `json:"thorough"`
	Split    string         `json:"split,omitempty"`  // parameter iterated over [0, SplitN) as separate work units
	SplitQ   int            `json:"split_quick,omitempty"`
	SplitT   int            `json:"split_thorough,omitempty"`
	Reach    []string       `json:"reach,omitempty"`
	Unwind   int            `json:"unwind,omitempty"`
	MaxPaths int            `json:"max_paths,omitempty"`
	MaxSteps int            `json:"max_steps,omitempty"`
	TierOnly string         `json:"tier_only,omitempty"`
	BudgetS  int            `json:"budget_s,omitempty"`
	NoValidate bool         `json:"no_validate,omitempty"`
	SymAddr  bool           `json:"sym_addr,omitempty"`
	NoMapOrders bool        `json:"no_map_orders,omitempty"`
	Note     string         `json:"note,omitempty"`
	Bounds   string         `json:"bounds,omitempty"`
	Outside  string         `json:"outside,omitempty"`
	AllowTruncated bool     `json:"allow_truncated,omitempty"` // truncation is an explicit, recorded cut
}

type SpecFile struct {
	Harnesses []HarnessSpec `json:"harnesses"`
}

type unit struct {
	spec   *HarnessSpec
	params map[string]int
	name   string
}

type unitResult struct {
	u       unit
	stats   Stats
	viols   []*Violation
	samples []map[string]interface{}
	queries, sat, unsat, unknown int
	solverT time.Duration
	wall    time.Duration
	err     string
	solverErr bool
}

func loadSpecs() (*SpecFile, error) {
	b, err := os.ReadFile(filepath.Join(verifRoot(), "harness", "specs.json"))
	if err != nil {
		return nil, err
	}
	var sf SpecFile
	if err := json.Unmarshal(b, &sf); err != nil {
		return nil, fmt.Errorf("specs.json: %v", err)
	}
	return &sf, nil
}

func tierParams(s *HarnessSpec, tier string) map[string]int {
	m := map[string]int{}
	for k, v := range s.Quick {
		m[k] = v
	}
	if tier == "thorough" {
		for k, v := range s.Thorough {
			m[k] = v
		}
	}
	return m
}

func runMain(args []string) int {
	fs := flag.NewFlagSet("run", flag.ExitOnError)
	tier := fs.String("tier", "", "quick|thorough")
	only := fs.String("only", "", "run only harnesses whose name contains this")
	workers := fs.Int("j", 0, "workers")
	solverKind := fs.String("solver", "z3", "")
	noReplay := fs.Bool("no-replay", false, "")
	verbose := fs.Bool("v", false, "")
	if len(args) < 1 {
		fmt.Println("usage: vcheck run <property> [--tier quick|thorough]")
		return 2
	}
	prop := args[0]
	fs.Parse(args[1:])
	if *tier == "" {
		*tier = os.Getenv("VERIF_TIER")
	}
	if *tier == "" {
		*tier = "quick"
	}
	seed := int64(1)
	if s := os.Getenv("VERIF_SEED"); s != "" {
		seed, _ = strconv.ParseInt(s, 10, 64)
	}
	t0 := time.Now()
	sf, err := loadSpecs()
	if err != nil {
		fmt.Println("INCONCLUSIVE:", err)
		return 2
	}
	var specs []*HarnessSpec
	pkgset := map[string]bool{}
	for i := range sf.Harnesses {
		s := &sf.Harnesses[i]
		match := s.Prop == prop
		for _, a := range s.Also {
			if a == prop {
				match = true
			}
		}
		if !match {
			continue
		}
		if s.TierOnly != "" && s.TierOnly != *tier {
			continue
		}
		if *only != "" && !strings.Contains(s.Fn, *only) {
			continue
		}
		specs = append(specs, s)
		pkgset[s.Pkg] = true
	}
	if len(specs) == 0 {
		fmt.Printf("INCONCLUSIVE: no harness registered for %s\n", prop)
		return 2
	}
	var rels []string
	for p := range pkgset {
		rels = append(rels, p)
	}
	sort.Strings(rels)
	loaded, err := loadProgram(rels)
	if err != nil {
		fmt.Printf("INCONCLUSIVE: %v\n", err)
		return 2
	}
	loadT := time.Since(t0)

	// work units
	var units []unit
	for _, s := range specs {
		p := tierParams(s, *tier)
		if s.Split != "" {
			n := s.SplitQ
			if *tier == "thorough" && s.SplitT > 0 {
				n = s.SplitT
			}
			for i := 0; i < n; i++ {
				q := map[string]int{}
				for k, v := range p {
					q[k] = v
				}
				q[s.Split] = i
				units = append(units, unit{spec: s, params: q, name: fmt.Sprintf("%s[%s=%d]", s.Fn, s.Split, i)})
			}
		} else {
			units = append(units, unit{spec: s, params: p, name: s.Fn})
		}
	}
	nw := *workers
	if nw <= 0 {
		nw = runtime.NumCPU()
	}
	if nw > len(units) {
		nw = len(units)
	}
	timeout := 20000
	if *tier == "thorough" {
		timeout = 120000
	}
	results := make([]unitResult, len(units))
	var mu sync.Mutex
	next := 0
	var wg sync.WaitGroup
	for w := 0; w < nw; w++ {
		wg.Add(1)
		go func() {
			defer wg.Done()
			var ex *Exec
			inits := map[string]*State{}
			defer func() {
				if ex != nil {
					ex.Close()
				}
			}()
			for {
				mu.Lock()
				i := next
				next++
				mu.Unlock()
				if i >= len(units) {
					return
				}
				u := units[i]
				res := unitResult{u: u}
				func() {
					defer func() {
						if r := recover(); r != nil {
							buf := make([]byte, 4096)
							n := runtime.Stack(buf, false)
							res.err = fmt.Sprintf("%v\n%s", r, buf[:n])
							if ex != nil {
								ex.Close()
								ex = nil
								inits = map[string]*State{}
							}
						}
					}()
					if ex == nil {
						var err error
						ex, err = NewExec(loaded.prog, *solverKind, timeout)
						if err != nil {
							panic(err)
						}
					}
					st0, ok := inits[u.spec.Pkg]
					if !ok {
						st0 = ex.RunInit([]*ssa.Package{loaded.pkgs[u.spec.Pkg]})
						inits[u.spec.Pkg] = st0
					}
					t1 := time.Now()
					ex.resetStats()
					ex.viols = nil
					ex.violSeen = map[string]int{}
					ex.samples = nil
					ex.params = u.params
					ex.harness = u.spec.Fn
					ex.unwind = 200
					if u.spec.Unwind > 0 {
						ex.unwind = u.spec.Unwind
					}
					ex.maxPaths = 200000
					if u.spec.MaxPaths > 0 {
						ex.maxPaths = u.spec.MaxPaths
					}
					ex.maxSteps = 300000
					if u.spec.MaxSteps > 0 {
						ex.maxSteps = u.spec.MaxSteps
					}
					budget := 900 * time.Second
					if *tier == "thorough" {
						budget = 3 * time.Hour
					}
					if u.spec.BudgetS > 0 {
						budget = time.Duration(u.spec.BudgetS) * time.Second
					}
					ex.deadline = time.Now().Add(budget)
					ex.symAddr = u.spec.SymAddr
					ex.mapOrders = !u.spec.NoMapOrders
					q0, s0, us0, uk0, st0t := ex.solverCounts()
					fn := loaded.pkgs[u.spec.Pkg].Func(u.spec.Fn)
					if fn == nil {
						panic("harness function not found: " + u.spec.Fn)
					}
					ex.Explore(st0, fn, nil)
					res.stats = ex.stats
					res.viols = ex.viols
					res.samples = ex.samples
					q1, s1, us1, uk1, st1t := ex.solverCounts()
					res.queries, res.sat, res.unsat, res.unknown = q1-q0, s1-s0, us1-us0, uk1-uk0
					res.solverT = st1t - st0t
					res.wall = time.Since(t1)
					res.solverErr = ex.solver.HadError || (ex.alt != nil && ex.alt.HadError)
					for _, v := range res.viols {
						v.Harness = u.spec.Fn
					}
				}()
				results[i] = res
				if *verbose {
					fmt.Printf("  unit %-40s paths=%v viol=%d wall=%v %s\n", u.name, res.stats.Paths, len(res.viols), res.wall.Round(time.Millisecond), firstLine(res.err))
				}
			}
		}()
	}
	wg.Wait()
	return finishRun(prop, *tier, seed, specs, units, results, loaded, loadT, t0, *noReplay)
}

func firstLine(s string) string {
	if i := strings.Index(s, "\n"); i >= 0 {
		return s[:i]
	}
	return s
}
