package main

// Hash-consed bit-vector / boolean terms and functional byte arrays.
// W == 0 means Bool; otherwise a bit-vector of width W (1..64).

import (
	"fmt"
	"math/bits"
)

type Op uint8

const (
	OConst Op = iota
	OVar
	OAdd
	OSub
	OMul
	OUDiv
	OSDiv
	OURem
	OSRem
	OAnd
	OOr
	OXor
	OShl
	OLShr
	OAShr
	ONot // bitwise
	ONeg
	OExtract // K = lo, W = result width
	OZExt
	OSExt
	OConcat
	OIte
	OEq
	OUlt
	OUle
	OSlt
	OSle
	OBAnd
	OBOr
	OBNot
	OSelect // Arr base, A = index
)

var opNames = map[Op]string{OAdd: "bvadd", OSub: "bvsub", OMul: "bvmul", OUDiv: "bvudiv", OSDiv: "bvsdiv", OURem: "bvurem", OSRem: "bvsrem",
	OAnd: "bvand", OOr: "bvor", OXor: "bvxor", OShl: "bvshl", OLShr: "bvlshr", OAShr: "bvashr", ONot: "bvnot", ONeg: "bvneg",
	OConcat: "concat", OIte: "ite", OEq: "=", OUlt: "bvult", OUle: "bvule", OSlt: "bvslt", OSle: "bvsle", OBAnd: "and", OBOr: "or", OBNot: "not"}

type Term struct {
	Op      Op
	W       uint8
	A, B, C *Term
	K       uint64
	Name    string
	Arr     *Arr
	id      uint32
}

type termKey struct {
	op      Op
	w       uint8
	a, b, c uint32
	k       uint64
	name    string
	arr     uint32
}

type ArrKind uint8

const (
	ABase  ArrKind = iota // uninterpreted BV64 -> BV8
	AFill                 // every byte = Val
	AConst                // concrete data, zero beyond
	AStore
	ACopy // Base with [DOff,DOff+N) replaced by Src[SOff...]
)

type Arr struct {
	Kind  ArrKind
	id    uint32
	Name  string
	Base  *Arr
	Idx   *Term
	Val   *Term
	Src   *Arr
	DOff  *Term
	SOff  *Term
	N     *Term
	Data  []byte
	depth int
}

type TS struct { // term store (one per worker)
	tab     map[termKey]*Term
	nextID  uint32
	nextArr uint32
	selMemo map[[2]uint32]*Term
	True    *Term
	False   *Term
	nvars   int
	varRange  map[uint32]urange
	rangeMemo map[uint32]urange
}

func NewTS() *TS {
	ts := &TS{tab: map[termKey]*Term{}, selMemo: map[[2]uint32]*Term{}}
	ts.True = ts.mk(&Term{Op: OConst, W: 0, K: 1})
	ts.False = ts.mk(&Term{Op: OConst, W: 0, K: 0})
	return ts
}

func id(t *Term) uint32 {
	if t == nil {
		return 0
	}
	return t.id
}

func (ts *TS) mk(t *Term) *Term {
	k := termKey{t.Op, t.W, id(t.A), id(t.B), id(t.C), t.K, t.Name, 0}
	if t.Arr != nil {
		k.arr = t.Arr.id
	}
	if e, ok := ts.tab[k]; ok {
		return e
	}
	ts.nextID++
	t.id = ts.nextID
	ts.tab[k] = t
	return t
}

func mask(w uint8) uint64 {
	if w >= 64 {
		return ^uint64(0)
	}
	return (uint64(1) << w) - 1
}

func (ts *TS) Const(w uint8, v uint64) *Term {
	if w == 0 {
		if v != 0 {
			return ts.True
		}
		return ts.False
	}
	return ts.mk(&Term{Op: OConst, W: w, K: v & mask(w)})
}

func (ts *TS) Bool(b bool) *Term {
	if b {
		return ts.True
	}
	return ts.False
}

func (ts *TS) Var(w uint8, name string) *Term {
	return ts.mk(&Term{Op: OVar, W: w, Name: name})
}

func (ts *TS) Fresh(w uint8, hint string) *Term {
	ts.nvars++
	return ts.Var(w, fmt.Sprintf("%s!%d", hint, ts.nvars))
}

func (t *Term) IsConst() bool { return t.Op == OConst }
func (t *Term) IsTrue() bool  { return t.Op == OConst && t.W == 0 && t.K == 1 }
func (t *Term) IsFalse() bool { return t.Op == OConst && t.W == 0 && t.K == 0 }

// signed value of constant
func (t *Term) SVal() int64 {
	return sext64(t.K, t.W)
}

func sext64(v uint64, w uint8) int64 {
	if w >= 64 {
		return int64(v)
	}
	sh := 64 - uint(w)
	return int64(v<<sh) >> sh
}

// splitAdd decomposes t into base + const (base may be nil for pure const)
func splitAdd(t *Term) (*Term, uint64) {
	if t.Op == OConst {
		return nil, t.K
	}
	if t.Op == OAdd && t.B.Op == OConst {
		return t.A, t.B.K
	}
	return t, 0
}

// diffConst returns a-b if syntactically constant (as signed, in width of a)
func diffConst(a, b *Term) (int64, bool) {
	ba, ca := splitAdd(a)
	bb, cb := splitAdd(b)
	if ba == bb {
		return sext64((ca-cb)&mask(a.W), a.W), true
	}
	return 0, false
}

// ---- linear normal form for +, -, * const: sum(coef_i * atom_i) + k  (mod 2^w)

type linExpr struct {
	atoms []*Term
	coefs []uint64
	k     uint64
}

func (ts *TS) linOf(t *Term, scale uint64, out *linExpr) {
	switch t.Op {
	case OConst:
		out.k += t.K * scale
		return
	case OAdd:
		ts.linOf(t.A, scale, out)
		ts.linOf(t.B, scale, out)
		return
	case OSub:
		ts.linOf(t.A, scale, out)
		ts.linOf(t.B, -scale, out)
		return
	case OMul:
		if t.B.Op == OConst {
			ts.linOf(t.A, scale*t.B.K, out)
			return
		}
	case OShl:
		if t.B.Op == OConst && t.B.K < uint64(t.W) {
			ts.linOf(t.A, scale<<t.B.K, out)
			return
		}
	}
	for i, a := range out.atoms {
		if a == t {
			out.coefs[i] += scale
			return
		}
	}
	out.atoms = append(out.atoms, t)
	out.coefs = append(out.coefs, scale)
}

func (ts *TS) linBuild(w uint8, le *linExpr) *Term {
	m := mask(w)
	// sort atoms by id (insertion sort; lists are short)
	for i := 1; i < len(le.atoms); i++ {
		for j := i; j > 0 && le.atoms[j-1].id > le.atoms[j].id; j-- {
			le.atoms[j-1], le.atoms[j] = le.atoms[j], le.atoms[j-1]
			le.coefs[j-1], le.coefs[j] = le.coefs[j], le.coefs[j-1]
		}
	}
	var pos, neg *Term
	addTo := func(acc *Term, a *Term, c uint64) *Term {
		x := a
		if c != 1 {
			if c&(c-1) == 0 {
				x = ts.mk(&Term{Op: OShl, W: w, A: a, B: ts.Const(w, uint64(bits.TrailingZeros64(c)))})
			} else {
				x = ts.mk(&Term{Op: OMul, W: w, A: a, B: ts.Const(w, c)})
			}
		}
		if acc == nil {
			return x
		}
		return ts.mk(&Term{Op: OAdd, W: w, A: acc, B: x})
	}
	for i, a := range le.atoms {
		c := le.coefs[i] & m
		if c == 0 {
			continue
		}
		if sext64(c, w) < 0 && c != (uint64(1)<<(w-1)) {
			neg = addTo(neg, a, (-c)&m)
		} else {
			pos = addTo(pos, a, c)
		}
	}
	k := le.k & m
	var r *Term
	switch {
	case pos == nil && neg == nil:
		return ts.Const(w, k)
	case neg == nil:
		r = pos
	case pos == nil:
		r = ts.mk(&Term{Op: OSub, W: w, A: ts.Const(w, 0), B: neg})
	default:
		r = ts.mk(&Term{Op: OSub, W: w, A: pos, B: neg})
	}
	if k != 0 {
		r = ts.mk(&Term{Op: OAdd, W: w, A: r, B: ts.Const(w, k)})
	}
	return r
}

func (ts *TS) Add(a, b *Term) *Term {
	w := a.W
	if a.Op == OConst && b.Op == OConst {
		return ts.Const(w, a.K+b.K)
	}
	if b.Op == OConst && b.K == 0 {
		return a
	}
	if a.Op == OConst && a.K == 0 {
		return b
	}
	var le linExpr
	ts.linOf(a, 1, &le)
	ts.linOf(b, 1, &le)
	return ts.linBuild(w, &le)
}

func (ts *TS) Sub(a, b *Term) *Term {
	w := a.W
	if a == b {
		return ts.Const(w, 0)
	}
	if b.Op == OConst && b.K == 0 {
		return a
	}
	var le linExpr
	ts.linOf(a, 1, &le)
	ts.linOf(b, ^uint64(0), &le)
	return ts.linBuild(w, &le)
}

func (ts *TS) Neg(a *Term) *Term {
	return ts.Sub(ts.Const(a.W, 0), a)
}

func (ts *TS) Mul(a, b *Term) *Term {
	w := a.W
	if a.Op == OConst && b.Op == OConst {
		return ts.Const(w, a.K*b.K)
	}
	if a.Op == OConst {
		a, b = b, a
	}
	if b.Op == OConst {
		if b.K == 0 {
			return b
		}
		if b.K == 1 {
			return a
		}
		if a.Op == OIte {
			return ts.Ite(a.A, ts.Mul(a.B, b), ts.Mul(a.C, b))
		}
		var le linExpr
		ts.linOf(a, b.K, &le)
		return ts.linBuild(w, &le)
	}
	// distribute over ite-of-constants to keep multipliers constant
	if iteConstLeaves(b, 0) {
		return ts.Ite(b.A, ts.Mul(a, b.B), ts.Mul(a, b.C))
	}
	if iteConstLeaves(a, 0) {
		return ts.Ite(a.A, ts.Mul(a.B, b), ts.Mul(a.C, b))
	}
	if a.id > b.id {
		a, b = b, a
	}
	return ts.mk(&Term{Op: OMul, W: w, A: a, B: b})
}

func iteConstLeaves(t *Term, d int) bool {
	if d > 12 {
		return false
	}
	if t.Op == OConst {
		return d > 0
	}
	if t.Op != OIte {
		return false
	}
	return (t.B.Op == OConst || iteConstLeaves(t.B, d+1)) && (t.C.Op == OConst || iteConstLeaves(t.C, d+1))
}

func (ts *TS) bin(op Op, a, b *Term) *Term {
	return ts.mk(&Term{Op: op, W: a.W, A: a, B: b})
}

func (ts *TS) UDiv(a, b *Term) *Term {
	if a.Op == OConst && b.Op == OConst && b.K != 0 {
		return ts.Const(a.W, a.K/b.K)
	}
	if b.Op == OConst && b.K == 1 {
		return a
	}
	if b.Op == OConst && b.K != 0 && b.K&(b.K-1) == 0 {
		return ts.LShr(a, ts.Const(a.W, uint64(bits.TrailingZeros64(b.K))))
	}
	return ts.bin(OUDiv, a, b)
}
func (ts *TS) URem(a, b *Term) *Term {
	if a.Op == OConst && b.Op == OConst && b.K != 0 {
		return ts.Const(a.W, a.K%b.K)
	}
	if b.Op == OConst && b.K != 0 && b.K&(b.K-1) == 0 {
		return ts.And(a, ts.Const(a.W, b.K-1))
	}
	return ts.bin(OURem, a, b)
}
func (ts *TS) SDiv(a, b *Term) *Term {
	if a.Op == OConst && b.Op == OConst && b.K != 0 {
		x, y := a.SVal(), b.SVal()
		if y == -1 {
			return ts.Const(a.W, uint64(-x))
		}
		return ts.Const(a.W, uint64(x/y))
	}
	if b.Op == OConst && b.K == 1 {
		return a
	}
	return ts.bin(OSDiv, a, b)
}
func (ts *TS) SRem(a, b *Term) *Term {
	if a.Op == OConst && b.Op == OConst && b.K != 0 {
		x, y := a.SVal(), b.SVal()
		if y == -1 {
			return ts.Const(a.W, 0)
		}
		return ts.Const(a.W, uint64(x%y))
	}
	return ts.bin(OSRem, a, b)
}

func (ts *TS) And(a, b *Term) *Term {
	if a.Op == OConst && b.Op == OConst {
		return ts.Const(a.W, a.K&b.K)
	}
	if a.Op == OConst {
		a, b = b, a
	}
	if b.Op == OConst {
		if b.K == 0 {
			return b
		}
		if b.K == mask(a.W) {
			return a
		}
		// and(zext(x), m) where m covers x's width
		if a.Op == OZExt && b.K&mask(a.A.W) == mask(a.A.W) {
			return a
		}
	}
	if a == b {
		return a
	}
	if b.Op != OConst && a.id > b.id {
		a, b = b, a
	}
	return ts.bin(OAnd, a, b)
}
type bitPiece struct {
	t   *Term
	off uint8
}

// bitPieces decomposes t into terms placed at bit offsets (zero elsewhere), if t has that shape.
func (ts *TS) bitPieces(t *Term, off uint8, out *[]bitPiece, depth int) bool {
	if depth > 16 {
		return false
	}
	switch t.Op {
	case OConst:
		if t.K == 0 {
			return true
		}
		return false
	case OZExt:
		return ts.bitPieces(t.A, off, out, depth+1)
	case OShl:
		if t.B.Op == OConst && t.B.K < uint64(t.W) {
			// bits shifted out must be known zero: require the operand to be a zero-extension that fits
			if t.A.Op == OZExt && uint64(t.A.A.W)+t.B.K <= uint64(t.W) {
				return ts.bitPieces(t.A.A, off+uint8(t.B.K), out, depth+1)
			}
		}
		return false
	case OConcat:
		return ts.bitPieces(t.B, off, out, depth+1) && ts.bitPieces(t.A, off+t.B.W, out, depth+1)
	case OOr:
		return ts.bitPieces(t.A, off, out, depth+1) && ts.bitPieces(t.B, off, out, depth+1)
	}
	*out = append(*out, bitPiece{t, off})
	return true
}

func placedShape(t *Term) bool {
	return t.Op == OShl || t.Op == OConcat || (t.Op == OZExt && t.A.Op != OVar)
}

func (ts *TS) orPieces(a, b *Term) *Term {
	var ps []bitPiece
	if !ts.bitPieces(a, 0, &ps, 0) || !ts.bitPieces(b, 0, &ps, 0) || len(ps) < 2 {
		return nil
	}
	// sort by offset, check disjointness
	for i := 1; i < len(ps); i++ {
		for j := i; j > 0 && ps[j-1].off > ps[j].off; j-- {
			ps[j-1], ps[j] = ps[j], ps[j-1]
		}
	}
	pos := uint8(0)
	var r *Term
	for _, p := range ps {
		if p.off < pos {
			return nil
		}
		if p.off > pos {
			z := ts.Const(p.off-pos, 0)
			if r == nil {
				r = z
			} else {
				r = ts.Concat(z, r)
			}
		}
		if r == nil {
			r = p.t
		} else {
			r = ts.Concat(p.t, r)
		}
		pos = p.off + p.t.W
	}
	if pos > a.W {
		return nil
	}
	return ts.ZExt(r, a.W)
}

func (ts *TS) Or(a, b *Term) *Term {
	if a.Op == OConst && b.Op == OConst {
		return ts.Const(a.W, a.K|b.K)
	}
	if a.Op != OConst && b.Op != OConst && (placedShape(a) || placedShape(b)) {
		if r := ts.orPieces(a, b); r != nil {
			return r
		}
	}
	if a.Op == OConst {
		a, b = b, a
	}
	if b.Op == OConst {
		if b.K == 0 {
			return a
		}
		if b.K == mask(a.W) {
			return b
		}
	}
	if a == b {
		return a
	}
	if b.Op != OConst && a.id > b.id {
		a, b = b, a
	}
	return ts.bin(OOr, a, b)
}
func (ts *TS) Xor(a, b *Term) *Term {
	if a.Op == OConst && b.Op == OConst {
		return ts.Const(a.W, a.K^b.K)
	}
	if a.Op == OConst {
		a, b = b, a
	}
	if b.Op == OConst && b.K == 0 {
		return a
	}
	if a == b {
		return ts.Const(a.W, 0)
	}
	if b.Op != OConst && a.id > b.id {
		a, b = b, a
	}
	return ts.bin(OXor, a, b)
}
func (ts *TS) Not(a *Term) *Term {
	if a.Op == OConst {
		return ts.Const(a.W, ^a.K)
	}
	if a.Op == ONot {
		return a.A
	}
	return ts.mk(&Term{Op: ONot, W: a.W, A: a})
}

// shifts: b has the same width as a (caller normalises); amounts >= W give 0 / sign fill.
func (ts *TS) Shl(a, b *Term) *Term {
	if b.Op == OConst {
		if b.K == 0 {
			return a
		}
		if b.K >= uint64(a.W) {
			return ts.Const(a.W, 0)
		}
		if a.Op == OConst {
			return ts.Const(a.W, a.K<<b.K)
		}
		if a.Op == OAdd || a.Op == OSub {
			var le linExpr
			ts.linOf(a, uint64(1)<<b.K, &le)
			return ts.linBuild(a.W, &le)
		}
	}
	return ts.bin(OShl, a, b)
}
func (ts *TS) LShr(a, b *Term) *Term {
	if b.Op == OConst {
		if b.K == 0 {
			return a
		}
		if b.K >= uint64(a.W) {
			return ts.Const(a.W, 0)
		}
		if a.Op == OConst {
			return ts.Const(a.W, a.K>>b.K)
		}
	}
	return ts.bin(OLShr, a, b)
}
func (ts *TS) AShr(a, b *Term) *Term {
	if b.Op == OConst {
		if b.K == 0 {
			return a
		}
		if a.Op == OConst {
			sh := b.K
			if sh >= uint64(a.W) {
				sh = uint64(a.W) - 1
			}
			return ts.Const(a.W, uint64(a.SVal()>>sh))
		}
	}
	return ts.bin(OAShr, a, b)
}

func (ts *TS) Extract(a *Term, lo, w uint8) *Term {
	if lo == 0 && w == a.W {
		return a
	}
	if a.Op == OConst {
		return ts.Const(w, a.K>>lo)
	}
	switch a.Op {
	case OZExt, OSExt:
		if lo+w <= a.A.W {
			return ts.Extract(a.A, lo, w)
		}
		if a.Op == OZExt && lo >= a.A.W {
			return ts.Const(w, 0)
		}
	case OExtract:
		return ts.Extract(a.A, lo+uint8(a.K), w)
	case OConcat:
		if lo+w <= a.B.W {
			return ts.Extract(a.B, lo, w)
		}
		if lo >= a.B.W {
			return ts.Extract(a.A, lo-a.B.W, w)
		}
	case OLShr:
		// extract(x >> c, 0, w) with c const and c+w <= W  -> extract(x, c, w)
		if a.B.Op == OConst && lo == 0 && a.B.K+uint64(w) <= uint64(a.W) {
			return ts.Extract(a.A, uint8(a.B.K), w)
		}
	case OOr, OAnd, OXor:
		if lo == 0 {
			// truncation distributes over bitwise ops
			x, y := ts.Extract(a.A, 0, w), ts.Extract(a.B, 0, w)
			switch a.Op {
			case OOr:
				return ts.Or(x, y)
			case OAnd:
				return ts.And(x, y)
			default:
				return ts.Xor(x, y)
			}
		}
	case OShl:
		if a.B.Op == OConst && lo == 0 && a.B.K >= uint64(w) {
			return ts.Const(w, 0)
		}
	case OIte:
		if a.B.Op == OConst && a.C.Op == OConst {
			return ts.Ite(a.A, ts.Extract(a.B, lo, w), ts.Extract(a.C, lo, w))
		}
	}
	return ts.mk(&Term{Op: OExtract, W: w, A: a, K: uint64(lo)})
}

func (ts *TS) ZExt(a *Term, w uint8) *Term {
	if w == a.W {
		return a
	}
	if w < a.W {
		return ts.Extract(a, 0, w)
	}
	if a.Op == OConst {
		return ts.Const(w, a.K)
	}
	if a.Op == OZExt {
		return ts.ZExt(a.A, w)
	}
	if a.Op == OIte && a.B.Op == OConst && a.C.Op == OConst {
		return ts.Ite(a.A, ts.ZExt(a.B, w), ts.ZExt(a.C, w))
	}
	// zext(trunc(x)) == x when x provably fits (value ranges)
	if a.Op == OExtract && a.K == 0 && a.A.W == w {
		if r := ts.rangeOf(a.A); r.ok && r.hi <= mask(a.W) {
			return a.A
		}
	}
	return ts.mk(&Term{Op: OZExt, W: w, A: a})
}

func (ts *TS) SExt(a *Term, w uint8) *Term {
	if w == a.W {
		return a
	}
	if w < a.W {
		return ts.Extract(a, 0, w)
	}
	if a.Op == OConst {
		return ts.Const(w, uint64(a.SVal()))
	}
	if a.Op == OSExt {
		return ts.SExt(a.A, w)
	}
	if a.Op == OZExt {
		return ts.ZExt(a.A, w)
	}
	// sext(trunc(x)) == x when x provably fits (value ranges)
	if a.Op == OExtract && a.K == 0 && a.A.W == w {
		if r := ts.rangeOf(a.A); r.ok && r.hi < (uint64(1)<<(a.W-1)) {
			return a.A
		}
	}
	if r := ts.rangeOf(a); r.ok && r.hi < (uint64(1)<<(a.W-1)) {
		return ts.ZExt(a, w)
	}
	if a.Op == OIte && (a.B.Op == OConst || a.B.Op == OIte) && (a.C.Op == OConst || a.C.Op == OIte) {
		return ts.Ite(a.A, ts.SExt(a.B, w), ts.SExt(a.C, w))
	}
	return ts.mk(&Term{Op: OSExt, W: w, A: a})
}

func (ts *TS) Concat(hi, lo *Term) *Term {
	if hi.Op == OConst && lo.Op == OConst {
		return ts.Const(hi.W+lo.W, hi.K<<lo.W|lo.K)
	}
	if hi.Op == OConst && hi.K == 0 {
		return ts.ZExt(lo, hi.W+lo.W)
	}
	// adjacent extracts of the same term merge
	if hi.Op == OExtract && lo.Op == OExtract && hi.A == lo.A && hi.K == lo.K+uint64(lo.W) {
		return ts.Extract(hi.A, uint8(lo.K), hi.W+lo.W)
	}
	if hi.Op == OExtract && lo.Op == OConcat && lo.A.Op == OExtract && hi.A == lo.A.A && hi.K == lo.A.K+uint64(lo.A.W) {
		return ts.Concat(ts.Extract(hi.A, uint8(lo.A.K), hi.W+lo.A.W), lo.B)
	}
	if hi.Op == OExtract && hi.K == uint64(lo.W) && hi.A == lo && false {
		return lo
	}
	return ts.mk(&Term{Op: OConcat, W: hi.W + lo.W, A: hi, B: lo})
}

func (ts *TS) Ite(c, a, b *Term) *Term {
	if c.IsTrue() {
		return a
	}
	if c.IsFalse() {
		return b
	}
	if a == b {
		return a
	}
	if a.W == 0 {
		if a.IsTrue() && b.IsFalse() {
			return c
		}
		if a.IsFalse() && b.IsTrue() {
			return ts.BNot(c)
		}
		if a.IsTrue() {
			return ts.BOr(c, b)
		}
		if a.IsFalse() {
			return ts.BAnd(ts.BNot(c), b)
		}
		if b.IsTrue() {
			return ts.BOr(ts.BNot(c), a)
		}
		if b.IsFalse() {
			return ts.BAnd(c, a)
		}
	}
	if c.Op == OBNot {
		return ts.Ite(c.A, b, a)
	}
	return ts.mk(&Term{Op: OIte, W: a.W, A: c, B: a, C: b})
}

func (ts *TS) Eq(a, b *Term) *Term {
	if a == b {
		return ts.True
	}
	if a.Op == OConst && b.Op == OConst {
		return ts.Bool(a.K == b.K)
	}
	if a.W == 0 {
		if b.IsTrue() {
			return a
		}
		if b.IsFalse() {
			return ts.BNot(a)
		}
		if a.IsTrue() {
			return b
		}
		if a.IsFalse() {
			return ts.BNot(b)
		}
	}
	if d, ok := diffConst(a, b); ok {
		return ts.Bool(d == 0)
	}
	if a.W >= 8 && ts.neByRange(a, b) {
		return ts.False
	}
	if a.Op == OConst {
		a, b = b, a
	}
	if b.Op == OConst {
		// ite(c, k1, k2) == k
		if a.Op == OIte && (a.B.Op == OConst || a.C.Op == OConst) {
			return ts.Ite(a.A, ts.Eq(a.B, b), ts.Eq(a.C, b))
		}
		if a.Op == OZExt {
			if b.K > mask(a.A.W) {
				return ts.False
			}
			return ts.Eq(a.A, ts.Const(a.A.W, b.K))
		}
		if a.Op == OSExt {
			if sext64(b.K&mask(a.A.W), a.A.W) != b.SVal() {
				return ts.False
			}
			return ts.Eq(a.A, ts.Const(a.A.W, b.K))
		}
		if a.Op == OAdd && a.B.Op == OConst {
			return ts.Eq(a.A, ts.Const(a.W, b.K-a.B.K))
		}
	} else if a.id > b.id {
		a, b = b, a
	}
	return ts.mk(&Term{Op: OEq, W: 0, A: a, B: b})
}

func (ts *TS) Ult(a, b *Term) *Term {
	if a == b {
		return ts.False
	}
	if a.Op == OConst && b.Op == OConst {
		return ts.Bool(a.K < b.K)
	}
	if b.Op == OConst && b.K == 0 {
		return ts.False
	}
	if a.Op == OConst && a.K == mask(a.W) {
		return ts.False
	}
	if a.Op == OZExt && b.Op == OConst && b.K > mask(a.A.W) {
		return ts.True
	}
	if a.Op == OZExt && b.Op == OZExt && a.A.W == b.A.W {
		return ts.Ult(a.A, b.A)
	}
	switch ts.ultByRange(a, b) {
	case 1:
		return ts.True
	case 0:
		return ts.False
	}
	// a < b with a common symbolic base and no wrap: compare the constant parts
	if d, ok := diffConst(a, b); ok {
		ra, rb := ts.rangeOf(a), ts.rangeOf(b)
		if ra.ok && rb.ok {
			return ts.Bool(d < 0)
		}
	}
	if b.Op == OConst && a.Op == OIte && (a.B.Op == OConst || a.C.Op == OConst) {
		return ts.Ite(a.A, ts.Ult(a.B, b), ts.Ult(a.C, b))
	}
	if a.Op == OConst && b.Op == OIte && (b.B.Op == OConst || b.C.Op == OConst) {
		return ts.Ite(b.A, ts.Ult(a, b.B), ts.Ult(a, b.C))
	}
	return ts.mk(&Term{Op: OUlt, W: 0, A: a, B: b})
}
func (ts *TS) Ule(a, b *Term) *Term { return ts.BNot(ts.Ult(b, a)) }
func (ts *TS) Slt(a, b *Term) *Term {
	if a == b {
		return ts.False
	}
	if a.Op == OConst && b.Op == OConst {
		return ts.Bool(a.SVal() < b.SVal())
	}
	if a.W >= 8 {
		ra, rb := ts.rangeOf(a), ts.rangeOf(b)
		half := uint64(1) << (a.W - 1)
		if ra.ok && rb.ok && ra.hi < half && rb.hi < half {
			return ts.Ult(a, b)
		}
	}
	if a.Op == OZExt && b.Op == OZExt && a.A.W == b.A.W {
		return ts.Ult(a.A, b.A)
	}
	if a.Op == OSExt && b.Op == OSExt && a.A.W == b.A.W {
		return ts.Slt(a.A, b.A)
	}
	if a.Op == OZExt && b.Op == OConst {
		// zext(x) <s k
		if b.SVal() <= 0 {
			return ts.False
		}
		if b.K > mask(a.A.W) {
			return ts.True
		}
		return ts.Ult(a.A, ts.Const(a.A.W, b.K))
	}
	if a.Op == OConst && b.Op == OZExt {
		if a.SVal() < 0 {
			return ts.True
		}
		if a.K >= mask(b.A.W) {
			return ts.False
		}
		return ts.Ult(ts.Const(b.A.W, a.K), b.A)
	}
	if b.Op == OConst && a.Op == OIte && (a.B.Op == OConst || a.C.Op == OConst) {
		return ts.Ite(a.A, ts.Slt(a.B, b), ts.Slt(a.C, b))
	}
	if a.Op == OConst && b.Op == OIte && (b.B.Op == OConst || b.C.Op == OConst) {
		return ts.Ite(b.A, ts.Slt(a, b.B), ts.Slt(a, b.C))
	}
	return ts.mk(&Term{Op: OSlt, W: 0, A: a, B: b})
}
func (ts *TS) Sle(a, b *Term) *Term { return ts.BNot(ts.Slt(b, a)) }

func (ts *TS) BNot(a *Term) *Term {
	if a.Op == OConst {
		return ts.Bool(a.K == 0)
	}
	if a.Op == OBNot {
		return a.A
	}
	return ts.mk(&Term{Op: OBNot, W: 0, A: a})
}
func (ts *TS) BAnd(a, b *Term) *Term {
	if a.IsFalse() || b.IsFalse() {
		return ts.False
	}
	if a.IsTrue() {
		return b
	}
	if b.IsTrue() {
		return a
	}
	if a == b {
		return a
	}
	if (a.Op == OBNot && a.A == b) || (b.Op == OBNot && b.A == a) {
		return ts.False
	}
	if a.id > b.id {
		a, b = b, a
	}
	return ts.mk(&Term{Op: OBAnd, W: 0, A: a, B: b})
}
func (ts *TS) BOr(a, b *Term) *Term {
	if a.IsTrue() || b.IsTrue() {
		return ts.True
	}
	if a.IsFalse() {
		return b
	}
	if b.IsFalse() {
		return a
	}
	if a == b {
		return a
	}
	if (a.Op == OBNot && a.A == b) || (b.Op == OBNot && b.A == a) {
		return ts.True
	}
	if a.id > b.id {
		a, b = b, a
	}
	return ts.mk(&Term{Op: OBOr, W: 0, A: a, B: b})
}
func (ts *TS) Implies(a, b *Term) *Term { return ts.BOr(ts.BNot(a), b) }

// ---------------------------------------------------------------- arrays

func (ts *TS) newArr(a *Arr) *Arr {
	ts.nextArr++
	a.id = ts.nextArr
	if a.Base != nil {
		a.depth = a.Base.depth + 1
	}
	return a
}

func (ts *TS) BaseArr(hint string) *Arr {
	a := ts.newArr(&Arr{Kind: ABase})
	a.Name = fmt.Sprintf("%s!a%d", hint, a.id)
	return a
}
func (ts *TS) FillArr(v *Term) *Arr { return ts.newArr(&Arr{Kind: AFill, Val: v}) }
func (ts *TS) ConstArr(data []byte) *Arr {
	return ts.newArr(&Arr{Kind: AConst, Data: data})
}

func (ts *TS) Store(a *Arr, idx, val *Term) *Arr {
	// overwrite of the most recent store at the same index
	if a.Kind == AStore && a.Idx == idx {
		return ts.newArr(&Arr{Kind: AStore, Base: a.Base, Idx: idx, Val: val})
	}
	return ts.newArr(&Arr{Kind: AStore, Base: a, Idx: idx, Val: val})
}

const copyExpandLimit = 32

func (ts *TS) Copy(dst *Arr, doff *Term, src *Arr, soff, n *Term) *Arr {
	if n.Op == OConst {
		if n.K == 0 {
			return dst
		}
		if n.K <= copyExpandLimit {
			// read all first (overlap-safe), then store
			vals := make([]*Term, n.K)
			for i := uint64(0); i < n.K; i++ {
				vals[i] = ts.Select(src, ts.Add(soff, ts.Const(64, i)))
			}
			for i := uint64(0); i < n.K; i++ {
				dst = ts.Store(dst, ts.Add(doff, ts.Const(64, i)), vals[i])
			}
			return dst
		}
	}
	return ts.newArr(&Arr{Kind: ACopy, Base: dst, Src: src, DOff: doff, SOff: soff, N: n})
}

// inRange: doff <= i < doff+n (unsigned, no wrap assumed for memory offsets)
func (ts *TS) inRange(i, doff, n *Term) *Term {
	if d, ok := diffConst(i, doff); ok {
		if d < 0 {
			return ts.False
		}
		return ts.Ult(ts.Const(64, uint64(d)), n)
	}
	return ts.BAnd(ts.Ule(doff, i), ts.Ult(ts.Sub(i, doff), n))
}

func (ts *TS) Select(a *Arr, i *Term) *Term {
	if i.W != 64 {
		panic("select index width")
	}
	switch a.Kind {
	case ABase:
		return ts.mk(&Term{Op: OSelect, W: 8, A: i, Arr: a})
	case AFill:
		return a.Val
	case AConst:
		if i.Op == OConst {
			if i.K < uint64(len(a.Data)) {
				return ts.Const(8, uint64(a.Data[i.K]))
			}
			return ts.Const(8, 0)
		}
		if len(a.Data) > 512 {
			panic("symbolic index into large constant data")
		}
		r := ts.Const(8, 0)
		for k := len(a.Data) - 1; k >= 0; k-- {
			if a.Data[k] != 0 {
				r = ts.Ite(ts.Eq(i, ts.Const(64, uint64(k))), ts.Const(8, uint64(a.Data[k])), r)
			}
		}
		return r
	}
	key := [2]uint32{a.id, i.id}
	if r, ok := ts.selMemo[key]; ok {
		return r
	}
	var r *Term
	switch a.Kind {
	case AStore:
		c := ts.Eq(a.Idx, i)
		if c.IsTrue() {
			r = a.Val
		} else if c.IsFalse() {
			r = ts.Select(a.Base, i)
		} else {
			r = ts.Ite(c, a.Val, ts.Select(a.Base, i))
		}
	case ACopy:
		c := ts.inRange(i, a.DOff, a.N)
		if c.IsTrue() {
			r = ts.Select(a.Src, ts.Add(ts.Sub(i, a.DOff), a.SOff))
		} else if c.IsFalse() {
			r = ts.Select(a.Base, i)
		} else {
			r = ts.Ite(c, ts.Select(a.Src, ts.Add(ts.Sub(i, a.DOff), a.SOff)), ts.Select(a.Base, i))
		}
	}
	ts.selMemo[key] = r
	return r
}

// ---------------------------------------------------------------- unsigned value ranges
//
// Variables introduced by zzInt(name, lo, hi) with constant non-negative bounds carry their
// range (the assumption lo <= v <= hi is added to the path condition whenever such a variable is
// created, and the variable's name encodes the bounds, so the range is valid wherever the variable
// occurs). Ranges propagate through +, -, * const, zero extension and ite, and let offset
// comparisons be decided without the solver.

type urange struct {
	lo, hi uint64
	ok     bool
}

func (ts *TS) SetVarRange(v *Term, lo, hi uint64) {
	if ts.varRange == nil {
		ts.varRange = map[uint32]urange{}
	}
	ts.varRange[v.id] = urange{lo, hi, true}
}

const rangeCap = uint64(1) << 62

func (ts *TS) rangeOf(t *Term) urange {
	if t.W == 0 {
		return urange{}
	}
	if t.Op == OConst {
		return urange{t.K, t.K, true}
	}
	if ts.rangeMemo == nil {
		ts.rangeMemo = map[uint32]urange{}
	}
	if r, ok := ts.rangeMemo[t.id]; ok {
		return r
	}
	r := ts.rangeCompute(t)
	if r.ok && (r.hi > mask(t.W) || r.lo > r.hi) {
		r = urange{}
	}
	if !r.ok && t.W < 62 {
		r = urange{0, mask(t.W), true}
	}
	ts.rangeMemo[t.id] = r
	return r
}

func (ts *TS) rangeCompute(t *Term) urange {
	switch t.Op {
	case OVar:
		if r, ok := ts.varRange[t.id]; ok {
			return r
		}
	case OZExt:
		r := ts.rangeOf(t.A)
		if r.ok {
			return r
		}
		return urange{0, mask(t.A.W), true}
	case OAdd:
		a, b := ts.rangeOf(t.A), ts.rangeOf(t.B)
		if a.ok && b.ok && a.hi < rangeCap && b.hi < rangeCap && a.hi+b.hi <= mask(t.W) {
			return urange{a.lo + b.lo, a.hi + b.hi, true}
		}
	case OSub:
		a, b := ts.rangeOf(t.A), ts.rangeOf(t.B)
		if a.ok && b.ok && a.lo >= b.hi {
			return urange{a.lo - b.hi, a.hi - b.lo, true}
		}
	case OMul:
		if t.B.Op == OConst {
			a := ts.rangeOf(t.A)
			if a.ok && a.hi < rangeCap && t.B.K < (1<<20) && a.hi*t.B.K <= mask(t.W) && a.hi < (1<<40) {
				return urange{a.lo * t.B.K, a.hi * t.B.K, true}
			}
		}
	case OShl:
		if t.B.Op == OConst && t.B.K < 20 {
			a := ts.rangeOf(t.A)
			if a.ok && a.hi < (1<<40) && a.hi<<t.B.K <= mask(t.W) {
				return urange{a.lo << t.B.K, a.hi << t.B.K, true}
			}
		}
	case OLShr:
		if t.B.Op == OConst && t.B.K < 64 {
			a := ts.rangeOf(t.A)
			if a.ok {
				return urange{a.lo >> t.B.K, a.hi >> t.B.K, true}
			}
		}
	case OIte:
		a, b := ts.rangeOf(t.B), ts.rangeOf(t.C)
		if a.ok && b.ok {
			lo, hi := a.lo, a.hi
			if b.lo < lo {
				lo = b.lo
			}
			if b.hi > hi {
				hi = b.hi
			}
			return urange{lo, hi, true}
		}
	case OAnd:
		if t.B.Op == OConst {
			return urange{0, t.B.K, true}
		}
	case OURem:
		if t.B.Op == OConst && t.B.K > 0 {
			return urange{0, t.B.K - 1, true}
		}
	case OExtract:
		if t.K == 0 {
			a := ts.rangeOf(t.A)
			if a.ok && a.hi <= mask(t.W) {
				return a
			}
		}
	case OConcat:
		if t.A.Op == OConst && t.A.K == 0 {
			return ts.rangeOf(t.B)
		}
	case OSExt:
		a := ts.rangeOf(t.A)
		if a.ok && a.hi < (uint64(1) << (t.A.W - 1)) {
			return a
		}
	}
	return urange{}
}

// cmpRanges decides a < b (unsigned) from ranges: 1 true, 0 false, -1 unknown
func (ts *TS) ultByRange(a, b *Term) int {
	ra, rb := ts.rangeOf(a), ts.rangeOf(b)
	if !ra.ok || !rb.ok {
		return -1
	}
	if ra.hi < rb.lo {
		return 1
	}
	if ra.lo >= rb.hi {
		return 0
	}
	return -1
}

func (ts *TS) neByRange(a, b *Term) bool {
	ra, rb := ts.rangeOf(a), ts.rangeOf(b)
	return ra.ok && rb.ok && (ra.hi < rb.lo || rb.hi < ra.lo)
}

// RawUle builds a <= b without range-based simplification (used to assert the very bounds the
// ranges are derived from).
func (ts *TS) RawUle(a, b *Term) *Term {
	lt := ts.mk(&Term{Op: OUlt, W: 0, A: b, B: a})
	return ts.mk(&Term{Op: OBNot, W: 0, A: lt})
}
