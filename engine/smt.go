package main

// SMT-LIB2 back end: one incremental solver process per worker.

import (
	"bufio"
	"fmt"
	"io"
	"os"
	"os/exec"
	"strconv"
	"strings"
	"time"
)

type Result int

const (
	Unsat Result = iota
	Sat
	Unknown
)

func (r Result) String() string { return [...]string{"unsat", "sat", "unknown"}[r] }

type PCNode struct {
	parent *PCNode
	cond   *Term
	depth  int
}

func (p *PCNode) Push(c *Term) *PCNode {
	d := 1
	if p != nil {
		d = p.depth + 1
	}
	return &PCNode{parent: p, cond: c, depth: d}
}

type Solver struct {
	ts       *TS
	cmd      *exec.Cmd
	in       io.WriteCloser
	out      *bufio.Reader
	stack    []*PCNode  // asserted nodes, one push level each
	defs     [][]uint32 // term ids defined at each level (level 0 = base)
	adefs    [][]uint32
	defined  map[uint32]bool
	adefined map[uint32]bool
	sb       strings.Builder
	log      io.Writer
	kind     string
	timeoutMs int

	NQueries int
	NSat, NUnsat, NUnknown int
	Time     time.Duration
	dead     bool
	extraOpen bool
	NKilled int
	needRestart bool
	NCancel int
	resetMode bool
	ndump int
	SlowLog func(time.Duration, Result)
	SlowThreshold time.Duration
	HadError bool
}

func NewSolver(ts *TS, kind string, timeoutMs int, log io.Writer) (*Solver, error) {
	s := &Solver{ts: ts, defined: map[uint32]bool{}, adefined: map[uint32]bool{}, log: log, kind: kind, timeoutMs: timeoutMs}
	s.defs = [][]uint32{nil}
	s.adefs = [][]uint32{nil}
	var cmd *exec.Cmd
	switch kind {
	case "z3":
		cmd = exec.Command("z3", "-in", "-smt2")
	case "z3-new":
		cmd = exec.Command("z3-new", "-in", "-smt2")
	case "cvc5":
		cmd = exec.Command("cvc5", "--incremental", "--lang=smt2", fmt.Sprintf("--tlimit-per=%d", timeoutMs))
	default:
		return nil, fmt.Errorf("unknown solver %s", kind)
	}
	in, err := cmd.StdinPipe()
	if err != nil {
		return nil, err
	}
	out, err := cmd.StdoutPipe()
	if err != nil {
		return nil, err
	}
	cmd.Stderr = os.Stderr
	if err := cmd.Start(); err != nil {
		return nil, err
	}
	s.cmd, s.in, s.out = cmd, in, bufio.NewReaderSize(out, 1<<16)
	if kind == "cvc5" {
		s.send("(set-logic ALL)\n(set-option :produce-models true)\n")
	} else {
		s.send(fmt.Sprintf("(set-option :timeout %d)\n(set-option :produce-models true)\n", timeoutMs))
	}
	return s, nil
}

func (s *Solver) Close() {
	if s.cmd != nil {
		s.in.Close()
		s.cmd.Process.Kill()
		s.cmd.Wait()
		s.cmd = nil
	}
}

func (s *Solver) send(txt string) {
	if s.log != nil {
		io.WriteString(s.log, txt)
	}
	if _, err := io.WriteString(s.in, txt); err != nil {
		s.dead = true
	}
}

func (s *Solver) readLine() string {
	l, err := s.out.ReadString('\n')
	if err != nil {
		s.dead = true
		s.needRestart = true
		return "(error \"solver died\")"
	}
	return strings.TrimSpace(l)
}

func sortStr(w uint8) string {
	if w == 0 {
		return "Bool"
	}
	return "(_ BitVec " + strconv.Itoa(int(w)) + ")"
}

func constStr(w uint8, k uint64) string {
	if w == 0 {
		if k != 0 {
			return "true"
		}
		return "false"
	}
	if w%4 == 0 {
		return fmt.Sprintf("#x%0*x", int(w)/4, k)
	}
	return fmt.Sprintf("#b%0*b", int(w), k)
}

func smtName(n string) string { return "|" + n + "|" }

// ref returns the textual reference for t, emitting definitions into s.sb as needed.
func (s *Solver) ref(t *Term) string {
	switch t.Op {
	case OConst:
		return constStr(t.W, t.K)
	}
	nm := "t" + strconv.Itoa(int(t.id))
	if s.defined[t.id] {
		return nm
	}
	var body string
	switch t.Op {
	case OVar:
		s.defined[t.id] = true
		s.defs[len(s.defs)-1] = append(s.defs[len(s.defs)-1], t.id)
		fmt.Fprintf(&s.sb, "(declare-fun %s () %s) ; %s\n", nm, sortStr(t.W), t.Name)
		return nm
	case OSelect:
		if !s.adefined[t.Arr.id] {
			s.adefined[t.Arr.id] = true
			s.adefs[len(s.adefs)-1] = append(s.adefs[len(s.adefs)-1], t.Arr.id)
			fmt.Fprintf(&s.sb, "(declare-fun a%d ((_ BitVec 64)) (_ BitVec 8)) ; %s\n", t.Arr.id, t.Arr.Name)
		}
		body = fmt.Sprintf("(a%d %s)", t.Arr.id, s.ref(t.A))
	case OExtract:
		body = fmt.Sprintf("((_ extract %d %d) %s)", int(t.K)+int(t.W)-1, t.K, s.ref(t.A))
	case OZExt:
		body = fmt.Sprintf("((_ zero_extend %d) %s)", t.W-t.A.W, s.ref(t.A))
	case OSExt:
		body = fmt.Sprintf("((_ sign_extend %d) %s)", t.W-t.A.W, s.ref(t.A))
	case ONot, ONeg, OBNot:
		body = fmt.Sprintf("(%s %s)", opNames[t.Op], s.ref(t.A))
	case OIte:
		body = fmt.Sprintf("(ite %s %s %s)", s.ref(t.A), s.ref(t.B), s.ref(t.C))
	default:
		body = fmt.Sprintf("(%s %s %s)", opNames[t.Op], s.ref(t.A), s.ref(t.B))
	}
	s.defined[t.id] = true
	s.defs[len(s.defs)-1] = append(s.defs[len(s.defs)-1], t.id)
	fmt.Fprintf(&s.sb, "(define-fun %s () %s %s)\n", nm, sortStr(t.W), body)
	return nm
}

func (s *Solver) flush() {
	if s.sb.Len() > 0 {
		s.send(s.sb.String())
		s.sb.Reset()
	}
}

func (s *Solver) push(n *PCNode) {
	s.sb.WriteString("(push 1)\n")
	s.defs = append(s.defs, nil)
	s.adefs = append(s.adefs, nil)
	s.stack = append(s.stack, n)
	r := s.ref(n.cond)
	fmt.Fprintf(&s.sb, "(assert %s)\n", r)
}

func (s *Solver) pop() {
	s.sb.WriteString("(pop 1)\n")
	for _, id := range s.defs[len(s.defs)-1] {
		delete(s.defined, id)
	}
	for _, id := range s.adefs[len(s.adefs)-1] {
		delete(s.adefined, id)
	}
	s.defs = s.defs[:len(s.defs)-1]
	s.adefs = s.adefs[:len(s.adefs)-1]
	s.stack = s.stack[:len(s.stack)-1]
}

// sync makes the solver's assertion stack equal to the path condition pc.
func (s *Solver) sync(pc *PCNode) {
	var chain []*PCNode
	for n := pc; n != nil; n = n.parent {
		chain = append(chain, n)
	}
	// chain is leaf..root; stack is root..leaf
	k := 0
	for k < len(s.stack) && k < len(chain) && s.stack[k] == chain[len(chain)-1-k] {
		k++
	}
	for len(s.stack) > k {
		s.pop()
	}
	for i := len(chain) - 1 - k; i >= 0; i-- {
		s.push(chain[i])
	}
}

// Check decides satisfiability of pc /\ extra (extra may be nil).
func (s *Solver) Check(pc *PCNode, extra *Term) Result {
	if extra != nil {
		if extra.IsFalse() {
			return Unsat
		}
		if extra.IsTrue() {
			extra = nil
		}
	}
	if s.needRestart {
		s.restart()
	}
	if s.resetMode {
		return s.checkReset(pc, extra)
	}
	t0 := time.Now()
	if s.extraOpen {
		s.popExtra()
		s.extraOpen = false
	}
	s.sync(pc)
	pushed := false
	if extra != nil {
		// definitions made for the extra condition live in their own level
		s.sb.WriteString("(push 1)\n")
		s.defs = append(s.defs, nil)
		s.adefs = append(s.adefs, nil)
		pushed = true
		r := s.ref(extra)
		fmt.Fprintf(&s.sb, "(assert %s)\n", r)
	}
	s.sb.WriteString("(check-sat)\n")
	s.flush()
	res := s.readResult()
	if pushed && res != Sat {
		s.popExtra()
		s.flush()
	} else if pushed {
		s.extraOpen = true
	}
	s.NQueries++
	switch res {
	case Sat:
		s.NSat++
	case Unsat:
		s.NUnsat++
	default:
		s.NUnknown++
	}
	d := time.Since(t0)
	s.Time += d
	if s.SlowLog != nil && d > s.SlowThreshold {
		s.SlowLog(d, res)
		if dir := os.Getenv("VCHECK_DUMPSLOW"); dir != "" {
			s.ndump++
			os.WriteFile(fmt.Sprintf("%s/slow%d_%s.smt2", dir, s.ndump, res), []byte(s.Standalone(pc, extra, "")), 0o644)
		}
	}
	return res
}

func (s *Solver) popExtra() {
	s.sb.WriteString("(pop 1)\n")
	for _, id := range s.defs[len(s.defs)-1] {
		delete(s.defined, id)
	}
	for _, id := range s.adefs[len(s.adefs)-1] {
		delete(s.adefined, id)
	}
	s.defs = s.defs[:len(s.defs)-1]
	s.adefs = s.adefs[:len(s.adefs)-1]
}

func (s *Solver) readResult() Result {
	// watchdog: z3 does not always honour its own time limit; kill the process when it overruns
	limit := time.Duration(2*s.timeoutMs)*time.Millisecond + 5*time.Second
	proc := s.cmd.Process
	wd := time.AfterFunc(limit, func() {
		s.NKilled++
		proc.Kill()
	})
	defer wd.Stop()
	for {
		l := s.readLine()
		switch {
		case l == "sat":
			if s.needRestart {
				return Unknown
			}
			return Sat
		case l == "unsat":
			if s.needRestart {
				return Unknown
			}
			return Unsat
		case l == "unknown" || l == "timeout":
			return Unknown
		case strings.HasPrefix(l, "(error"):
			if strings.Contains(l, "canceled") || strings.Contains(l, "timeout") || strings.Contains(l, "solver died") {
				// the time limit fired outside check-sat (e.g. during push): the context is no longer
				// what we think it is; the answer that follows is discarded and the process restarted
				s.needRestart = true
				s.NCancel++
			} else {
				fmt.Fprintf(os.Stderr, "SOLVER ERROR: %s\n", l)
				s.HadError = true
			}
			if s.dead {
				return Unknown
			}
			// keep reading: the check-sat answer still follows
		case l == "":
			if s.dead {
				return Unknown
			}
		}
	}
}

// Model access: valid right after a Check that returned Sat. Call EndModel when done.
func (s *Solver) Eval(t *Term) (uint64, bool) {
	if t.Op == OConst {
		return t.K, true
	}
	r := s.ref(t)
	fmt.Fprintf(&s.sb, "(get-value (%s))\n", r)
	s.flush()
	// answer: ((t12 #x0000)) possibly over multiple lines
	txt := s.readSexp()
	return parseValue(txt)
}

func (s *Solver) readSexp() string {
	var sb strings.Builder
	depth := 0
	started := false
	for {
		l := s.readLine()
		if s.dead {
			return ""
		}
		sb.WriteString(l)
		sb.WriteByte(' ')
		for _, ch := range l {
			if ch == '(' {
				depth++
				started = true
			} else if ch == ')' {
				depth--
			}
		}
		if started && depth <= 0 {
			return sb.String()
		}
	}
}

func parseValue(txt string) (uint64, bool) {
	if strings.Contains(txt, "(error") {
		return 0, false
	}
	if i := strings.LastIndex(txt, "#x"); i >= 0 {
		j := i + 2
		for j < len(txt) && strings.ContainsRune("0123456789abcdefABCDEF", rune(txt[j])) {
			j++
		}
		v, err := strconv.ParseUint(txt[i+2:j], 16, 64)
		return v, err == nil
	}
	if i := strings.LastIndex(txt, "#b"); i >= 0 {
		j := i + 2
		for j < len(txt) && (txt[j] == '0' || txt[j] == '1') {
			j++
		}
		v, err := strconv.ParseUint(txt[i+2:j], 2, 64)
		return v, err == nil
	}
	if strings.Contains(txt, " true)") {
		return 1, true
	}
	if strings.Contains(txt, " false)") {
		return 0, true
	}
	return 0, false
}

func (s *Solver) EndModel() {
	if s.extraOpen {
		s.popExtra()
		s.flush()
		s.extraOpen = false
	}
}

// Standalone renders pc /\ extra as a self-contained SMT-LIB2 script (for cross-checking with
// other solvers and for non-incremental solving of hard verdict queries).
func (s *Solver) Standalone(pc *PCNode, extra *Term, logic string) string {
	saved := struct {
		defined, adefined map[uint32]bool
		defs, adefs       [][]uint32
		sb                strings.Builder
	}{s.defined, s.adefined, s.defs, s.adefs, s.sb}
	s.defined, s.adefined = map[uint32]bool{}, map[uint32]bool{}
	s.defs, s.adefs = [][]uint32{nil}, [][]uint32{nil}
	s.sb = strings.Builder{}
	var chain []*PCNode
	for n := pc; n != nil; n = n.parent {
		chain = append(chain, n)
	}
	var asserts []string
	for i := len(chain) - 1; i >= 0; i-- {
		asserts = append(asserts, s.ref(chain[i].cond))
	}
	if extra != nil {
		asserts = append(asserts, s.ref(extra))
	}
	var out strings.Builder
	if logic != "" {
		fmt.Fprintf(&out, "(set-logic %s)\n", logic)
	}
	out.WriteString(s.sb.String())
	for _, a := range asserts {
		fmt.Fprintf(&out, "(assert %s)\n", a)
	}
	out.WriteString("(check-sat)\n")
	s.defined, s.adefined, s.defs, s.adefs, s.sb = saved.defined, saved.adefined, saved.defs, saved.adefs, saved.sb
	return out.String()
}


// checkReset solves pc /\ extra from scratch ((reset) + full script): the solver then runs its
// non-incremental strategy (preprocessing + bit-blasting), which is far stronger on the arithmetic
// heavy queries than the incremental core. The context stays open for Eval until the next Check.
func (s *Solver) checkReset(pc *PCNode, extra *Term) Result {
	t0 := time.Now()
	s.defined, s.adefined = map[uint32]bool{}, map[uint32]bool{}
	s.defs, s.adefs = [][]uint32{nil}, [][]uint32{nil}
	s.stack = nil
	s.extraOpen = false
	s.sb.Reset()
	var chain []*PCNode
	for n := pc; n != nil; n = n.parent {
		chain = append(chain, n)
	}
	var asserts []string
	for i := len(chain) - 1; i >= 0; i-- {
		asserts = append(asserts, s.ref(chain[i].cond))
	}
	if extra != nil {
		asserts = append(asserts, s.ref(extra))
	}
	body := s.sb.String()
	s.sb.Reset()
	fmt.Fprintf(&s.sb, "(reset)\n(set-option :timeout %d)\n(set-option :produce-models true)\n", s.timeoutMs)
	s.sb.WriteString(body)
	for _, a := range asserts {
		fmt.Fprintf(&s.sb, "(assert %s)\n", a)
	}
	s.sb.WriteString("(check-sat)\n")
	s.flush()
	res := s.readResult()
	s.NQueries++
	switch res {
	case Sat:
		s.NSat++
	case Unsat:
		s.NUnsat++
	default:
		s.NUnknown++
	}
	s.Time += time.Since(t0)
	return res
}

// oneShot runs an external solver process on a standalone script; only the verdict is used.
func oneShot(script string, timeout time.Duration, name string, args ...string) Result {
	f, err := os.CreateTemp("", "vq-*.smt2")
	if err != nil {
		return Unknown
	}
	defer os.Remove(f.Name())
	f.WriteString(script)
	f.Close()
	cmd := exec.Command(name, append(args, f.Name())...)
	done := make(chan []byte, 1)
	go func() {
		out, _ := cmd.Output()
		done <- out
	}()
	select {
	case out := <-done:
		txt := strings.TrimSpace(string(out))
		if strings.Contains(txt, "(error") {
			return Unknown
		}
		switch {
		case strings.HasPrefix(txt, "unsat"):
			return Unsat
		case strings.HasPrefix(txt, "sat"):
			return Sat
		}
		return Unknown
	case <-time.After(timeout):
		if cmd.Process != nil {
			cmd.Process.Kill()
		}
		return Unknown
	}
}

func (s *Solver) setTimeout(ms int) {
	s.timeoutMs = ms
	if s.kind != "cvc5" {
		s.send(fmt.Sprintf("(set-option :timeout %d)\n", ms))
	}
}

// restart replaces the solver process by a fresh one (after a cancellation outside check-sat).
func (s *Solver) restart() {
	if s.cmd != nil {
		s.in.Close()
		s.cmd.Process.Kill()
		s.cmd.Wait()
	}
	n, err := NewSolver(s.ts, s.kind, s.timeoutMs, s.log)
	if err != nil {
		s.dead = true
		return
	}
	s.cmd, s.in, s.out = n.cmd, n.in, n.out
	s.stack, s.defs, s.adefs = nil, [][]uint32{nil}, [][]uint32{nil}
	s.defined, s.adefined = map[uint32]bool{}, map[uint32]bool{}
	s.sb.Reset()
	s.extraOpen, s.needRestart, s.dead = false, false, false
}

// portfolio runs cvc5 (integer encoding) and z3 (from scratch) on the same standalone script and
// returns the first definite verdict.
func portfolio(script string, timeout time.Duration) (Result, string) {
	f, err := os.CreateTemp("", "vq-*.smt2")
	if err != nil {
		return Unknown, ""
	}
	defer os.Remove(f.Name())
	f.WriteString(script)
	f.Close()
	type ans struct {
		r   Result
		who string
	}
	ch := make(chan ans, 2)
	run := func(who string, name string, args ...string) *exec.Cmd {
		cmd := exec.Command(name, append(args, f.Name())...)
		go func() {
			out, _ := cmd.Output()
			txt := strings.TrimSpace(string(out))
			r := Unknown
			if !strings.Contains(txt, "(error") {
				if strings.HasPrefix(txt, "unsat") {
					r = Unsat
				} else if strings.HasPrefix(txt, "sat") {
					r = Sat
				}
			}
			ch <- ans{r, who}
		}()
		return cmd
	}
	c1 := run("cvc5", "cvc5", "--solve-bv-as-int=sum")
	c2 := run("z3", "z3", "-smt2", fmt.Sprintf("-T:%d", int(timeout.Seconds())+1))
	kill := func() {
		for _, c := range []*exec.Cmd{c1, c2} {
			if c.Process != nil {
				c.Process.Kill()
			}
		}
	}
	defer kill()
	deadline := time.After(timeout)
	for got := 0; got < 2; got++ {
		select {
		case a := <-ch:
			if a.r != Unknown {
				return a.r, a.who
			}
		case <-deadline:
			return Unknown, ""
		}
	}
	return Unknown, ""
}
