package main

import (
	"fmt"
	"os"
	"sort"
	"strings"

	"golang.org/x/tools/go/ssa"
)

// concreteRun executes a harness in the engine with all draws taken from a concrete vector.
func concreteRun(ex *Exec, loaded *Loaded, pkg, fn string, params map[string]int, draws []DrawVal) (viols []*Violation, end string) {
	defer func() {
		if r := recover(); r != nil {
			// the concrete replay hit something the executor only supports symbolically
			ex.concrete = nil
			ex.work = nil
			viols, end = nil, fmt.Sprintf("unsupported: %v", r)
		}
	}()
	return concreteRun1(ex, loaded, pkg, fn, params, draws)
}

func concreteRun1(ex *Exec, loaded *Loaded, pkg, fn string, params map[string]int, draws []DrawVal) ([]*Violation, string) {
	st0 := ex.RunInit([]*ssa.Package{loaded.pkgs[pkg]})
	ex.resetStats()
	ex.viols = nil
	ex.violSeen = map[string]int{}
	ex.params = params
	ex.harness = fn
	ex.concrete = draws
	if ex.concrete == nil {
		ex.concrete = []DrawVal{}
	}
	ex.concIdx = 0
	ex.observations = nil
	ex.unwind = 100000
	ex.mapOrders = false
	f := loaded.pkgs[pkg].Func(fn)
	if f == nil {
		return nil, "no such harness"
	}
	ex.Explore(st0, f, nil)
	ex.concrete = nil
	var kinds []string
	for k, v := range ex.stats.Paths {
		kinds = append(kinds, fmt.Sprintf("%s:%d", k, v))
	}
	sort.Strings(kinds)
	return ex.viols, strings.Join(kinds, ",")
}

// validateHarness: translator validation. The harness is run natively on random draw vectors
// (real build) and the same vectors are pushed through the executor in concrete mode; outcome
// (ok / failed assertions / panic) must agree. Returns (#validated, mismatches).
func validateHarness(nb *nativeBuilder, ex *Exec, loaded *Loaded, u unit, n int, seed int64) (int, []string) {
	validated := 0
	var mism []string
	for i := 0; i < n; i++ {
		env := []string{fmt.Sprintf("ZZ_RANDOM=%d", seed*1000+int64(i)), "ZZ_HARNESS=" + u.spec.Fn}
		for k, v := range u.params {
			env = append(env, fmt.Sprintf("ZZ_PARAM_%s=%d", k, v))
		}
		o, err := nb.run(u.spec.Pkg, env)
		if err != nil {
			return validated, append(mism, "native run failed: "+firstLine(err.Error()))
		}
		if os.Getenv("VCHECK_VDEBUG") != "" {
			fmt.Printf("  validate %s: native outcome=%s fails=%v draws=%d %s\n", u.name, o.Outcome, o.Fails, len(o.Draws), firstLine(lastLines(o.Raw)))
		}
		if o.Outcome == "abort" || o.Outcome == "noharness" || o.Outcome == "crash" && o.Panic == "" {
			continue // assumption not met by the random vector
		}
		viols, end := concreteRun(ex, loaded, u.spec.Pkg, u.spec.Fn, u.params, o.Draws)
		if os.Getenv("VCHECK_VDEBUG") != "" {
			fmt.Printf("    engine: paths=%s viols=%d sites=%v\n", end, len(viols), ex.stats.EndSites)
		}
		if strings.Contains(end, "unsupported") || strings.Contains(end, "infeasible") || strings.Contains(end, "truncated") {
			// the engine could not follow this vector (e.g. assumption on ghost state): not counted
			continue
		}
		nativeFail := map[string]bool{}
		for _, f := range o.Fails {
			nativeFail[f] = true
		}
		engineFail := map[string]bool{}
		enginePanic := false
		ghost := false
		for _, v := range viols {
			switch v.Kind {
			case "assert":
				if v.Dirty || v.HashDep {
					ghost = true
				}
				engineFail[v.Msg] = true
			case "panic":
				enginePanic = true
			default:
				ghost = true
			}
		}
		if ghost {
			continue
		}
		ok := (o.Outcome == "panic" || o.Outcome == "crash") == enginePanic
		if !enginePanic {
			for f := range nativeFail {
				if !engineFail[f] {
					ok = false
				}
			}
			for f := range engineFail {
				if !nativeFail[f] {
					ok = false
				}
			}
		}
		if ok {
			validated++
		} else {
			mism = append(mism, fmt.Sprintf("%s seed %d: native outcome=%s fails=%v panic=%q; engine paths=%s fails=%v panic=%v", u.name, seed*1000+int64(i), o.Outcome, o.Fails, o.Panic, end, keys(engineFail), enginePanic))
		}
	}
	return validated, mism
}

func keys(m map[string]bool) []string {
	var r []string
	for k := range m {
		r = append(r, k)
	}
	sort.Strings(r)
	return r
}

func lastLines(s string) string {
	l := strings.Split(strings.TrimSpace(s), "\n")
	if len(l) > 3 {
		l = l[len(l)-3:]
	}
	return strings.Join(l, " | ")
}
