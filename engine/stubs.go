package main

import (
	"fmt"
	"go/types"
	"strings"

	"golang.org/x/tools/go/ssa"
)

func (ex *Exec) argStr(st *State, v Value) string {
	s, ok := v.(StrV)
	if !ok {
		panic("internal: intrinsic expects constant string")
	}
	cs, ok := ex.concreteStr(st, s)
	if !ok {
		panic("internal: intrinsic label must be a constant string")
	}
	return cs
}

func (ex *Exec) drawInt(st *State, name string, w uint8, signed bool) *Term {
	if ex.concrete != nil {
		d := ex.nextConcrete(name, "int")
		t := ex.ts.Const(w, d.Val)
		st.draws = append(st.draws, Draw{Name: name, Kind: "int", T: t, W: w, Signed: signed})
		return t
	}
	t := ex.ts.Var(w, fmt.Sprintf("%s#%d", name, len(st.draws)))
	st.draws = append(st.draws, Draw{Name: name, Kind: "int", T: t, W: w, Signed: signed})
	return t
}

func (ex *Exec) nextConcrete(name, kind string) DrawVal {
	if ex.concIdx >= len(ex.concrete) {
		panic(pathEnd{"unsupported", "concrete replay: draw vector exhausted at " + name})
	}
	d := ex.concrete[ex.concIdx]
	ex.concIdx++
	if d.Name != name || d.Kind != kind {
		panic(pathEnd{"unsupported", fmt.Sprintf("concrete replay: draw mismatch want %s/%s got %s/%s", name, kind, d.Name, d.Kind)})
	}
	return d
}

func (ex *Exec) drawBytes(st *State, name string, n, c *Term) (int, *Arr) {
	ts := ex.ts
	var arr *Arr
	if ex.concrete != nil {
		d := ex.nextConcrete(name, "bytes")
		data := make([]byte, d.Len)
		copy(data, d.Bytes)
		arr = ts.ConstArr(data)
		if n.Op != OConst || n.K != d.Len {
			panic(pathEnd{"unsupported", "concrete replay: length mismatch for " + name})
		}
	} else {
		arr = ts.BaseArr(name)
	}
	st.draws = append(st.draws, Draw{Name: name, Kind: "bytes", T: n, Arr: arr})
	id := ex.newBytesObj(st, arr, c, nil)
	ex.obj(st, id).tag = "input " + name
	return id, arr
}

// stub returns (result, handled). A nil result with handled=true means a frame was pushed
// (or the path continues without assigning).
func (ex *Exec) stub(st *State, fr *Frame, fn *ssa.Function, args []Value, isDefer bool) (Value, bool) {
	name := fn.Name()
	if intrinsicNames[name] && fn.Pkg != nil {
		return ex.intrinsic(st, fr, name, args), true
	}
	full := fn.String()
	ts := ex.ts
	if ex.initMode && name == "init" && fn.Pkg != nil && !initAllowed(fn.Pkg.Pkg.Path()) {
		return TupleV{}, true
	}
	unit := TupleV{}
	switch full {
	case "github.com/bytedance/gopkg/lang/mcache.Malloc":
		ex.stats.Stubs[full]++
		size := ex.term(args[0])
		capT := size
		vs := args[1].(SliceV)
		nvar := ex.concretize(st, vs.Len, 4, "variadic count")
		if nvar > 1 {
			ex.check(st, ts.True, "panic", "too many arguments to Malloc")
		}
		if nvar == 1 {
			c0 := ex.term(ex.load(st, ex.indexAddr(st, vs, ts.Const(64, 0), nil).(PtrV), types.Typ[types.Int]))
			capT = ts.Ite(ts.Slt(size, c0), c0, size)
		}
		ex.check(st, ts.Slt(size, ts.Const(64, 0)), "panic", "mcache.Malloc: negative size")
		var c *Term
		if capT.Op == OConst {
			c = ts.Const(64, nextPow2(capT.K))
		} else {
			ex.allocAssume(st, capT, "mcache.Malloc(n)")
			c = ts.Fresh(64, "mcap")
			pow2 := ts.BAnd(ts.Eq(ts.And(c, ts.Sub(c, ts.Const(64, 1))), ts.Const(64, 0)), ts.BNot(ts.Eq(c, ts.Const(64, 0))))
			tight := ts.BOr(ts.Eq(c, ts.Const(64, 1)), ts.Ult(ts.LShr(c, ts.Const(64, 1)), capT))
			ex.addPC(st, ts.BAnd(pow2, ts.BAnd(ts.Ule(capT, c), ts.BAnd(tight, ts.Ule(c, ts.Const(64, 1<<40))))))
		}
		id := ex.newBytesObj(st, ts.BaseArr("mcache"), c, nil)
		o := ex.obj(st, id)
		o.owner = "pool"
		o.tag = "mcache buffer"
		return SliceV{Obj: id, Off: ts.Const(64, 0), Len: size, Cap: c}, true
	case "github.com/bytedance/gopkg/lang/mcache.Free":
		ex.stats.Stubs[full]++
		s := args[0].(SliceV)
		if s.Obj == 0 {
			return unit, true
		}
		isPow2 := ts.BAnd(ts.Eq(ts.And(s.Cap, ts.Sub(s.Cap, ts.Const(64, 1))), ts.Const(64, 0)), ts.BNot(ts.Eq(s.Cap, ts.Const(64, 0))))
		if !ex.decide(st, isPow2) {
			return unit, true
		}
		o := ex.obj(st, s.Obj)
		if o.owner != "pool" {
			ex.check(st, ts.True, "ownership", "memory not obtained from the pool is recycled into it ("+o.tag+")")
			return unit, true
		}
		if o.freed {
			ex.check(st, ts.True, "uaf", "double free of pooled buffer")
			return unit, true
		}
		ow := ex.objW(st, s.Obj)
		ow.freed = true
		return unit, true
	case "github.com/bytedance/gopkg/lang/dirtmake.Bytes":
		ex.stats.Stubs[full]++
		n, c := ex.term(args[0]), ex.term(args[1])
		ex.check(st, ts.BOr(ts.Slt(n, ts.Const(64, 0)), ts.Slt(c, n)), "panic", "dirtmake.Bytes: len out of range")
		return ex.makeSlice(st, types.Typ[types.Uint8], n, c, false), true
	case "(*sync.Pool).Get":
		ex.stats.Stubs[full]++
		p := args[0].(PtrV)
		key := poolKey(p)
		if l := st.pools[key]; len(l) > 0 {
			v := l[len(l)-1]
			st.pools[key] = l[:len(l)-1]
			return v, true
		}
		pt := fn.Signature.Recv().Type().(*types.Pointer).Elem().Underlying().(*types.Struct)
		fi := -1
		for i := 0; i < pt.NumFields(); i++ {
			if pt.Field(i).Name() == "New" {
				fi = i
			}
		}
		newF := ex.load(st, PtrV{Obj: p.Obj, Path: append(append([]int32(nil), p.Path...), int32(fi))}, pt.Field(fi).Type()).(FuncV)
		if newF.Fn == nil {
			return IfaceV{}, true
		}
		nf := ex.pushFrame(st, newF.Fn, nil, newF.Bind)
		nf.isDefer = isDefer
		return nil, true
	case "(*sync.Pool).Put":
		ex.stats.Stubs[full]++
		key := poolKey(args[0].(PtrV))
		st.pools[key] = append(st.pools[key], args[1])
		return unit, true
	case "(*sync.Mutex).Lock", "(*sync.Mutex).Unlock", "(*sync.RWMutex).Lock", "(*sync.RWMutex).Unlock", "(*sync.RWMutex).RLock", "(*sync.RWMutex).RUnlock":
		ex.stats.Stubs[full]++
		return unit, true
	case "sync/atomic.CompareAndSwapUint32", "sync/atomic.CompareAndSwapInt32", "sync/atomic.CompareAndSwapUint64", "sync/atomic.CompareAndSwapInt64":
		ex.stats.Stubs[full]++
		p := args[0].(PtrV)
		t := fn.Signature.Params().At(1).Type()
		cur := ex.term(ex.load(st, p, t))
		eq := ts.Eq(cur, ex.term(args[1]))
		if ex.decide(st, eq) {
			ex.inAtomic = true
			ex.store(st, p, args[2], t)
			ex.inAtomic = false
			return ts.True, true
		}
		return ts.False, true
	case "sync/atomic.StoreUint32", "sync/atomic.StoreInt32", "sync/atomic.StoreUint64", "sync/atomic.StoreInt64":
		ex.stats.Stubs[full]++
		ex.inAtomic = true
		ex.store(st, args[0].(PtrV), args[1], fn.Signature.Params().At(1).Type())
		ex.inAtomic = false
		return unit, true
	case "sync/atomic.LoadUint32", "sync/atomic.LoadInt32", "sync/atomic.LoadUint64", "sync/atomic.LoadInt64":
		ex.stats.Stubs[full]++
		return ex.load(st, args[0].(PtrV), fn.Signature.Results().At(0).Type()), true
	case "sync/atomic.AddUint32", "sync/atomic.AddInt32", "sync/atomic.AddUint64", "sync/atomic.AddInt64":
		ex.stats.Stubs[full]++
		t := fn.Signature.Params().At(1).Type()
		p := args[0].(PtrV)
		nv := ts.Add(ex.term(ex.load(st, p, t)), ex.term(args[1]))
		ex.inAtomic = true
		ex.store(st, p, nv, t)
		ex.inAtomic = false
		return nv, true
	case "hash/maphash.MakeSeed":
		ex.stats.Stubs[full]++
		return StructV{ts.Fresh(64, "seed")}, true
	case "hash/maphash.String", "hash/maphash.Bytes":
		ex.stats.Stubs[full]++
		seed := ex.term(args[0].(StructV)[0])
		var s StrV
		switch a := args[1].(type) {
		case StrV:
			s = a
		case SliceV:
			s = StrV{Obj: a.Obj, Off: a.Off, Len: a.Len}
		}
		h := ts.Fresh(64, "hash")
		// bounded hash range: every residue modulo the table sizes in reach (1, 7, 17) and hence every
		// collision-chain shape stays reachable, while the solver does not have to divide 64-bit values
		ex.addPC(st, ts.Ule(h, ts.Const(64, 255)))
		ex.stats.Assumptions["maphash modelled as an uninterpreted function with values in 0..255"]++
		var conds []*Term
		for _, hc := range st.hashes {
			same := ts.BAnd(ts.Eq(seed, hc.seed), ex.strEq(st, s, hc.s))
			conds = append(conds, ts.Implies(same, ts.Eq(h, hc.h)))
		}
		for _, c := range conds {
			ex.addPC(st, c)
		}
		// the content is snapshotted: keys are immutable strings
		st.hashes = append(st.hashes, hashCall{seed: seed, s: s, h: h})
		return h, true
	case "fmt.Sprintf", "fmt.Sprint", "fmt.Sprintln":
		ex.stats.Stubs[full]++
		return ex.opaqueFormat(st, full, args), true
	case "fmt.Errorf":
		ex.stats.Stubs[full]++
		s := ex.opaqueFormat(st, full, args)
		return ex.newErrorString(st, s), true
	case "fmt.Fprintf", "fmt.Fprint", "fmt.Fprintln", "fmt.Printf", "fmt.Println", "fmt.Print":
		ex.stats.Stubs[full]++
		return TupleV{ts.Const(64, 0), IfaceV{}}, true
	case "math.Float64bits", "math.Float64frombits", "math.Float32bits", "math.Float32frombits":
		return args[0], true
	case "errors.As":
		ex.stats.Stubs[full]++
		return ex.errorsAs(st, args[0].(IfaceV), args[1].(IfaceV)), true
	case "internal/reflectlite.TypeOf":
		iv := args[0].(IfaceV)
		return IfaceV{T: iv.T, V: OpaqueV{"rtype:"}}, true
	case "runtime.KeepAlive", "runtime.SetFinalizer", "runtime.GC":
		return unit, true
	case "context.Background", "context.TODO":
		return IfaceV{T: types.Typ[types.Int], V: ts.Const(64, 0)}, true
	case "os.Getenv":
		return ex.strConst(""), true
	}
	return nil, false
}

var intrinsicNames = map[string]bool{}

func init() {
	for _, n := range strings.Fields(`zzRegister zzU8 zzU16 zzU32 zzU64 zzBool zzInt zzPick zzBytesCap zzBytes zzString zzAssume zzAssert
		zzFail zzAssertEqBytes zzAssertEqStr zzAssertEqStrBytes zzReach zzObserve zzAnd zzOr zzImplies zzNot zzIteInt zzParam zzEqStr
		zzEqBytes zzEqStrBytes zzConcrete zzMarkCaller zzIsFreed zzSameMem zzSameMemStr zzDisjoint zzHavocFreed zzNative zzFreeze zzAssertLive`) {
		intrinsicNames[n] = true
	}
}

func nextPow2(v uint64) uint64 {
	if v <= 1 {
		return 1
	}
	p := uint64(1)
	for p < v {
		p <<= 1
	}
	return p
}

func poolKey(p PtrV) int {
	k := p.Obj * 1000
	for _, x := range p.Path {
		k = k*31 + int(x) + 1
	}
	return k
}

// valueKey identifies a value for the purpose of making formatting deterministic.
func (ex *Exec) valueKey(st *State, v Value, depth int) string {
	if depth > 4 {
		return "?"
	}
	switch x := v.(type) {
	case *Term:
		return fmt.Sprintf("t%d", x.id)
	case StrV:
		return fmt.Sprintf("s%d:%d:%d", x.Obj, x.Off.id, x.Len.id)
	case PtrV:
		return fmt.Sprintf("p%d%v", x.Obj, x.Path)
	case IfaceV:
		if x.T == nil {
			return "nil"
		}
		return x.T.String() + "(" + ex.valueKey(st, x.V, depth+1) + ")"
	case SliceV:
		if x.Obj == 0 {
			return "[]"
		}
		o := ex.obj(st, x.Obj)
		k := "["
		if o.kind != KCells {
			k = fmt.Sprintf("sl%d:%d:%d[", x.Obj, x.Off.id, x.Len.id)
		}
		if o.kind == KCells && x.Len.Op == OConst && x.Off.Op == OConst && x.Len.K <= 8 {
			arr := ex.cellByPath(st, o, x.Path)
			for i := uint64(0); i < x.Len.K; i++ {
				k += ex.valueKey(st, ex.cellLoad(ex.cellAt(arr, int64(x.Off.K+i))), depth+1) + ","
			}
		}
		return k + "]"
	case StructV:
		k := "{"
		for _, f := range x {
			k += ex.valueKey(st, f, depth+1) + ","
		}
		return k + "}"
	}
	return fmt.Sprintf("%T", v)
}

// opaqueFormat models fmt.Sprintf & co. as a deterministic function of the call site and the
// arguments: an opaque non-empty string (formatting is never the subject of a property).
func (ex *Exec) opaqueFormat(st *State, fn string, args []Value) StrV {
	key := fn + "@" + ex.site(st)
	for _, a := range args {
		key += "|" + ex.valueKey(st, a, 0)
	}
	if st.formats == nil {
		st.formats = map[string]StrV{}
	}
	if s, ok := st.formats[key]; ok {
		return s
	}
	s := ex.opaqueString(st, "fmt")
	st.formats[key] = s
	return s
}

func (ex *Exec) opaqueString(st *State, hint string) StrV {
	ts := ex.ts
	n := ts.Fresh(64, hint+"len")
	ex.addPC(st, ts.BAnd(ts.Ule(ts.Const(64, 1), n), ts.Ule(n, ts.Const(64, 200))))
	id := ex.newBytesObj(st, ts.BaseArr(hint), n, nil)
	o := ex.obj(st, id)
	o.readonly = true
	o.tag = "formatted string"
	return StrV{Obj: id, Off: ts.Const(64, 0), Len: n}
}

// newErrorString builds *errors.errorString{s}
func (ex *Exec) newErrorString(st *State, s StrV) Value {
	pkg := ex.prog.ImportedPackage("errors")
	if pkg == nil {
		panic(unsupported("errors package not loaded"))
	}
	t := pkg.Type("errorString").Type()
	id := ex.newCellObj(st, t)
	ex.cellStore(ex.obj(st, id).root.kids[0], s)
	return IfaceV{T: types.NewPointer(t), V: PtrV{Obj: id}}
}

// ---------------------------------------------------------------- harness intrinsics

func (ex *Exec) sliceAsStr(v Value) StrV {
	switch a := v.(type) {
	case StrV:
		return a
	case SliceV:
		return StrV{Obj: a.Obj, Off: a.Off, Len: a.Len}
	}
	panic("internal: expected string or []byte")
}

func (ex *Exec) assertEq(st *State, a, b StrV, label string) {
	ts := ex.ts
	ex.stats.Labels["assert:"+label]++
	ex.check(st, ts.BNot(ts.Eq(a.Len, b.Len)), "assert", label+" (length)")
	if a.Obj == b.Obj && a.Off == b.Off {
		return
	}
	if a.Len.Op == OConst && a.Len.K <= 64 {
		bad := ts.False
		for i := uint64(0); i < a.Len.K; i++ {
			bad = ts.BOr(bad, ts.BNot(ts.Eq(ex.strByte(st, a, i), ex.strByte(st, b, i))))
		}
		ex.check(st, bad, "assert", label+" (content)")
		return
	}
	if a.Obj == 0 || b.Obj == 0 {
		return // both empty given equal lengths
	}
	if ex.concrete != nil && a.Len.Op == OConst && a.Len.K <= 1<<22 {
		// concrete replay: compare directly
		for i := uint64(0); i < a.Len.K; i++ {
			x, y := ex.strByte(st, a, i), ex.strByte(st, b, i)
			if x != y {
				ex.check(st, ts.BNot(ts.Eq(x, y)), "assert", label+" (content)")
				return
			}
		}
		return
	}
	w := ts.Fresh(64, "wit")
	ao, bo := ex.obj(st, a.Obj), ex.obj(st, b.Obj)
	bad := ts.BAnd(ts.Ult(w, a.Len), ts.BNot(ts.Eq(ts.Select(ao.arr, ts.Add(a.Off, w)), ts.Select(bo.arr, ts.Add(b.Off, w)))))
	ex.hardNext = ao.arr.depth+bo.arr.depth > 0
	ex.check(st, bad, "assert", label+" (content)")
	ex.hardNext = false
}

func (ex *Exec) intrinsic(st *State, fr *Frame, name string, args []Value) Value {
	ts := ex.ts
	unit := TupleV{}
	switch name {
	case "zzU8":
		return ex.drawInt(st, ex.argStr(st, args[0]), 8, false)
	case "zzU16":
		return ex.drawInt(st, ex.argStr(st, args[0]), 16, false)
	case "zzU32":
		return ex.drawInt(st, ex.argStr(st, args[0]), 32, false)
	case "zzU64":
		return ex.drawInt(st, ex.argStr(st, args[0]), 64, false)
	case "zzBool":
		t := ex.drawInt(st, ex.argStr(st, args[0]), 8, false)
		if ex.concrete == nil {
			ex.addPC(st, ts.Ule(t, ts.Const(8, 1)))
		}
		return ts.Eq(t, ts.Const(8, 1))
	case "zzInt":
		lo, hi := ex.term(args[1]), ex.term(args[2])
		nm := ex.argStr(st, args[0])
		if ex.concrete == nil && lo.Op == OConst && hi.Op == OConst && lo.SVal() >= 0 && hi.SVal() >= lo.SVal() && hi.K < (1<<61) {
			// constant non-negative bounds: the variable's name carries them, and so does its range
			t := ts.Var(64, fmt.Sprintf("%s#%d[%d..%d]", nm, len(st.draws), lo.K, hi.K))
			ts.SetVarRange(t, lo.K, hi.K)
			st.draws = append(st.draws, Draw{Name: nm, Kind: "int", T: t, W: 64, Signed: true})
			ex.addPC(st, ts.BAnd(ts.RawUle(ts.Const(64, lo.K), t), ts.RawUle(t, ts.Const(64, hi.K))))
			return t
		}
		t := ex.drawInt(st, nm, 64, true)
		if ex.concrete == nil {
			ex.addPC(st, ts.BAnd(ts.Sle(lo, t), ts.Sle(t, hi)))
		}
		return t
	case "zzPick":
		nm := ex.argStr(st, args[0])
		lo, hi := ex.term(args[1]), ex.term(args[2])
		if lo.Op != OConst || hi.Op != OConst {
			panic("internal: zzPick bounds must be concrete")
		}
		if ex.concrete != nil {
			d := ex.nextConcrete(nm, "int")
			t := ts.Const(64, d.Val)
			st.draws = append(st.draws, Draw{Name: nm, Kind: "int", T: t, W: 64, Signed: true})
			return t
		}
		n := int(hi.SVal()-lo.SVal()) + 1
		if n <= 0 {
			panic(pathEnd{"infeasible", "empty zzPick range"})
		}
		i := ex.choose(st, n)
		t := ts.Const(64, uint64(lo.SVal()+int64(i)))
		st.draws = append(st.draws, Draw{Name: nm, Kind: "int", T: t, W: 64, Signed: true})
		return t
	case "zzBytes", "zzBytesCap", "zzString":
		nm := ex.argStr(st, args[0])
		n := ex.term(args[1])
		c := n
		if name == "zzBytesCap" {
			c = ex.term(args[2])
		}
		id, _ := ex.drawBytes(st, nm, n, c)
		if name == "zzString" {
			o := ex.obj(st, id)
			o.readonly = true
			return StrV{Obj: id, Off: ts.Const(64, 0), Len: n}
		}
		return SliceV{Obj: id, Off: ts.Const(64, 0), Len: n, Cap: c}
	case "zzAssume":
		c := ex.term(args[0])
		if c.IsFalse() {
			panic(pathEnd{"infeasible", "assume false"})
		}
		if !c.IsTrue() {
			ex.addPC(st, c)
			if !ex.feasible(st, ts.True) {
				panic(pathEnd{"infeasible", "assume"})
			}
		}
		return unit
	case "zzAssert":
		label := ex.argStr(st, args[1])
		ex.stats.Labels["assert:"+label]++
		ex.check(st, ts.BNot(ex.term(args[0])), "assert", label)
		return unit
	case "zzFail":
		ex.check(st, ts.True, "assert", ex.argStr(st, args[0]))
		return unit
	case "zzAssertEqBytes", "zzAssertEqStr", "zzAssertEqStrBytes":
		ex.assertEq(st, ex.sliceAsStr(args[0]), ex.sliceAsStr(args[1]), ex.argStr(st, args[2]))
		return unit
	case "zzReach":
		label := ex.argStr(st, args[0])
		if ex.stats.Labels["reach:"+label] == 0 {
			r := ex.sat(st.pc, nil)
			ex.endModel()
			if r != Sat {
				return unit
			}
		}
		ex.stats.Labels["reach:"+label]++
		return unit
	case "zzObserve":
		t := ex.term(args[1])
		if t.Op == OConst {
			ex.observations = append(ex.observations, fmt.Sprintf("%s=%d", ex.argStr(st, args[0]), t.K))
		} else {
			ex.observations = append(ex.observations, fmt.Sprintf("%s=?", ex.argStr(st, args[0])))
		}
		return unit
	case "zzAnd":
		return ts.BAnd(ex.term(args[0]), ex.term(args[1]))
	case "zzOr":
		return ts.BOr(ex.term(args[0]), ex.term(args[1]))
	case "zzImplies":
		return ts.Implies(ex.term(args[0]), ex.term(args[1]))
	case "zzNot":
		return ts.BNot(ex.term(args[0]))
	case "zzIteInt":
		return ts.Ite(ex.term(args[0]), ex.term(args[1]), ex.term(args[2]))
	case "zzParam":
		nm := ex.argStr(st, args[0])
		v, ok := ex.params[nm]
		if !ok {
			panic("internal: unknown harness parameter " + nm)
		}
		return ts.Const(64, uint64(int64(v)))
	case "zzEqStr", "zzEqBytes", "zzEqStrBytes":
		return ex.strEq(st, ex.sliceAsStr(args[0]), ex.sliceAsStr(args[1]))
	case "zzConcrete": // fork an int value to a constant
		return ts.Const(64, ex.concretize(st, ex.term(args[0]), 64, "zzConcrete"))
	case "zzMarkCaller":
		s := args[0].(SliceV)
		if s.Obj != 0 {
			o := ex.objW(st, s.Obj)
			o.readonly = true
			o.owner = "caller"
			o.tag = "caller memory " + ex.argStr(st, args[1])
		}
		return unit
	case "zzIsFreed":
		s := ex.sliceAsStr(args[0])
		if s.Obj == 0 {
			return ts.False
		}
		return ts.Bool(ex.obj(st, s.Obj).freed)
	case "zzAssertLive":
		// ghost assertion: the memory behind b has not been recycled into the pool
		sv := ex.sliceAsStr(args[0])
		label := ex.argStr(st, args[1])
		ex.stats.Labels["assert:"+label]++
		if sv.Obj != 0 && ex.obj(st, sv.Obj).freed {
			ex.check(st, ts.True, "uaf", label)
		}
		return unit
	case "zzSameMem", "zzSameMemStr":
		a, b := ex.sliceAsStr(args[0]), ex.sliceAsStr(args[1])
		if a.Obj != b.Obj {
			return ts.False
		}
		if a.Obj == 0 {
			return ts.True
		}
		return ts.Eq(a.Off, b.Off)
	case "zzDisjoint":
		a, b := ex.sliceAsStr(args[0]), ex.sliceAsStr(args[1])
		if a.Obj != b.Obj || a.Obj == 0 {
			return ts.True
		}
		// [aOff, aOff+aLen) and [bOff, bOff+bLen) do not intersect
		return ts.BOr(ts.Ule(ts.Add(a.Off, a.Len), b.Off), ts.Ule(ts.Add(b.Off, b.Len), a.Off))
	case "zzHavocFreed":
		for id := 1; id < len(st.heap); id++ {
			o := st.heap[id]
			if o != nil && o.kind == KBytes && o.freed {
				ow := ex.objW(st, id)
				ow.arr = ts.BaseArr("cotenant")
			}
		}
		return unit
	case "zzFreeze":
		// everything that exists now is shared with other instances / goroutines
		st.freezeGlobals = true
		for id := 1; id < len(st.heap); id++ {
			if st.heap[id] != nil && !st.heap[id].frozen {
				ex.objW(st, id).frozen = true
			}
		}
		return unit
	case "zzRegister":
		return unit
	case "zzNative":
		return ts.False
	case "zzPoolReuse":
		return unit
	}
	panic("internal: unknown intrinsic " + name)
}

// errorsAs models errors.As for targets that are pointers to a concrete or interface type: the chain
// is walked through Unwrap() error methods (executed synchronously; they must not fork).
func (ex *Exec) errorsAs(st *State, err IfaceV, target IfaceV) Value {
	ts := ex.ts
	pt, ok := target.T.(*types.Pointer)
	if !ok || target.T == nil {
		ex.check(st, ts.True, "panic", "errors: target must be a non-nil pointer")
	}
	want := pt.Elem()
	tp := target.V.(PtrV)
	for depth := 0; depth < 32; depth++ {
		if err.T == nil {
			return ts.False
		}
		if iface, isIface := want.Underlying().(*types.Interface); isIface {
			if types.Implements(err.T, iface) {
				ex.store(st, tp, err, want)
				return ts.True
			}
		} else if types.Identical(err.T, want) {
			ex.store(st, tp, err.V, want)
			return ts.True
		}
		sel := ex.prog.MethodSets.MethodSet(err.T).Lookup(nil, "Unwrap")
		if sel == nil {
			return ts.False
		}
		fn := ex.prog.MethodValue(sel)
		if fn == nil || fn.Signature.Results().Len() != 1 {
			return ts.False
		}
		res := ex.callSync(st, fn, []Value{err.V})
		next, ok := res.(IfaceV)
		if !ok {
			return ts.False
		}
		err = next
	}
	panic(unsupported("errors.As: chain too long"))
}

// callSync runs fn to completion inside the current instruction (no forking allowed).
func (ex *Exec) callSync(st *State, fn *ssa.Function, args []Value) Value {
	depth := len(st.frames)
	nwork := len(ex.work)
	fr := ex.pushFrame(st, fn, args, nil)
	fr.isDefer = true // result is not assigned to any instruction of the caller
	var result Value
	for len(st.frames) > depth {
		top := st.top()
		in := top.block.Instrs[top.ip]
		if ret, ok := in.(*ssa.Return); ok && len(st.frames) == depth+1 {
			switch len(ret.Results) {
			case 0:
				result = TupleV{}
			case 1:
				result = ex.get(st, top, ret.Results[0])
			default:
				tu := make(TupleV, len(ret.Results))
				for i, r := range ret.Results {
					tu[i] = ex.get(st, top, r)
				}
				result = tu
			}
			st.frames = st.frames[:depth]
			break
		}
		saved := st.taken
		st.taken = nil
		ex.exec(st, top, in)
		st.taken = saved
		ex.stats.Instrs++
		if len(ex.work) != nwork {
			panic(unsupported("fork inside a synchronous helper call (" + fn.String() + ")"))
		}
	}
	return result
}
