package main

import (
	"fmt"
	"go/types"

	"golang.org/x/tools/go/ssa"
)

// Value is one of: *Term, PtrV, SliceV, StrV, IfaceV, StructV, ArrayV, MapV, FuncV, TupleV, RangeV, OpaqueV
type Value interface{}

type PtrV struct {
	Obj  int
	Path []int32 // cell path (cell objects)
	Off  *Term   // byte offset (byte objects)
	Safe bool    // derived from a bounds-checked index and not moved since
	Wrap int     // number of virtual single-field struct wrappers (pointer reinterpretation)
	Sym    *Term // symbolic element index: Path[SymPos] is a placeholder
	SymPos int
}

type SliceV struct {
	Obj  int
	Path []int32 // path to the array cell (cell objects)
	Off  *Term   // element offset of the slice start inside the array / byte object
	Len  *Term
	Cap  *Term
}

type StrV struct {
	Obj int
	Off *Term
	Len *Term
}

type IfaceV struct {
	T types.Type // nil => nil interface
	V Value
}

type StructV []Value
type ArrayV []Value
type TupleV []Value

type MapV struct{ Obj int }

type FuncV struct {
	Fn   *ssa.Function
	Bind []Value
}

type RangeV struct { // map iterator
	Keys []Value
	Vals []Value
	Pos  int
}

type OpaqueV struct{ What string }

func (p PtrV) IsNil() bool { return p.Obj == 0 }

func widthOf(t types.Type) uint8 {
	b, ok := t.Underlying().(*types.Basic)
	if !ok {
		panic(fmt.Sprintf("widthOf non-basic %s", t))
	}
	switch b.Kind() {
	case types.Bool, types.UntypedBool:
		return 0
	case types.Int8, types.Uint8:
		return 8
	case types.Int16, types.Uint16:
		return 16
	case types.Int32, types.Uint32, types.Float32, types.UntypedRune:
		return 32
	case types.Int, types.Uint, types.Uintptr, types.Int64, types.Uint64, types.Float64, types.UntypedInt, types.UntypedFloat:
		return 64
	}
	panic(fmt.Sprintf("widthOf %s", t))
}

func isSigned(t types.Type) bool {
	b, ok := t.Underlying().(*types.Basic)
	return ok && b.Info()&types.IsInteger != 0 && b.Info()&types.IsUnsigned == 0
}
func isInteger(t types.Type) bool {
	b, ok := t.Underlying().(*types.Basic)
	return ok && b.Info()&types.IsInteger != 0
}
func isFloat(t types.Type) bool {
	b, ok := t.Underlying().(*types.Basic)
	return ok && b.Info()&types.IsFloat != 0
}
func isString(t types.Type) bool {
	b, ok := t.Underlying().(*types.Basic)
	return ok && b.Info()&types.IsString != 0
}
func isBool(t types.Type) bool {
	b, ok := t.Underlying().(*types.Basic)
	return ok && b.Info()&types.IsBoolean != 0
}
func isUnsafePtr(t types.Type) bool {
	b, ok := t.Underlying().(*types.Basic)
	return ok && b.Kind() == types.UnsafePointer
}

// isByteElem: element types stored in functional byte arrays
func isByteElem(t types.Type) bool {
	b, ok := t.Underlying().(*types.Basic)
	return ok && (b.Kind() == types.Uint8 || b.Kind() == types.Int8)
}

func isByteArrayType(t types.Type) bool {
	a, ok := t.Underlying().(*types.Array)
	return ok && isByteElem(a.Elem())
}

func (ex *Exec) zero(t types.Type) Value {
	ts := ex.ts
	switch u := t.Underlying().(type) {
	case *types.Basic:
		switch {
		case u.Info()&types.IsString != 0:
			return StrV{Off: ts.Const(64, 0), Len: ts.Const(64, 0)}
		case u.Kind() == types.UnsafePointer:
			return PtrV{}
		case u.Info()&types.IsComplex != 0:
			return OpaqueV{"complex"}
		case u.Kind() == types.UntypedNil:
			return PtrV{}
		}
		return ts.Const(widthOf(t), 0)
	case *types.Pointer:
		return PtrV{}
	case *types.Slice:
		return SliceV{Off: ts.Const(64, 0), Len: ts.Const(64, 0), Cap: ts.Const(64, 0)}
	case *types.Map:
		return MapV{}
	case *types.Interface:
		return IfaceV{}
	case *types.Signature:
		return FuncV{}
	case *types.Chan:
		return OpaqueV{"nilchan"}
	case *types.Struct:
		s := make(StructV, u.NumFields())
		for i := range s {
			s[i] = ex.zero(u.Field(i).Type())
		}
		return s
	case *types.Array:
		a := make(ArrayV, u.Len())
		z := ex.zero(u.Elem())
		for i := range a {
			a[i] = z
		}
		return a
	case *types.Tuple:
		tu := make(TupleV, u.Len())
		for i := range tu {
			tu[i] = ex.zero(u.At(i).Type())
		}
		return tu
	}
	panic(fmt.Sprintf("zero: unsupported type %s", t))
}

// ---------------------------------------------------------------- heap objects

type ObjKind uint8

const (
	KBytes ObjKind = iota
	KCells
	KMap
)

type Cell struct {
	val       Value
	kids      []*Cell          // struct fields / dense array elements
	sparse    map[int64]*Cell  // sparse array (symbolic length)
	sparseLen *Term
	elemT     types.Type
	isArr     bool
}

type Object struct {
	id   int
	kind ObjKind
	typ  types.Type
	// bytes
	arr  *Arr
	size *Term
	addr *Term
	// cells
	root *Cell
	// map
	mkeys []Value
	mvals []Value
	// ghost
	freed     bool
	owner     string // "", "caller", "pool", "gc"
	readonly  bool   // stores are violations (caller memory, string data)
	frozen    bool   // shared between instances/goroutines: plain stores are violations (C14)
	tag       string
	allocSite string
}

func (o *Object) clone() *Object {
	n := *o
	if o.root != nil {
		n.root = o.root.clone()
	}
	if o.kind == KMap {
		n.mkeys = append([]Value(nil), o.mkeys...)
		n.mvals = append([]Value(nil), o.mvals...)
	}
	return &n
}

func (c *Cell) clone() *Cell {
	n := *c
	if c.kids != nil {
		n.kids = make([]*Cell, len(c.kids))
		for i, k := range c.kids {
			n.kids[i] = k.clone()
		}
	}
	if c.sparse != nil {
		n.sparse = make(map[int64]*Cell, len(c.sparse))
		for i, k := range c.sparse {
			n.sparse[i] = k.clone()
		}
	}
	return &n
}

func (ex *Exec) newCell(t types.Type) *Cell {
	switch u := t.Underlying().(type) {
	case *types.Struct:
		c := &Cell{kids: make([]*Cell, u.NumFields())}
		for i := range c.kids {
			c.kids[i] = ex.newCell(u.Field(i).Type())
		}
		return c
	case *types.Array:
		c := &Cell{kids: make([]*Cell, u.Len()), isArr: true, elemT: u.Elem()}
		for i := range c.kids {
			c.kids[i] = ex.newCell(u.Elem())
		}
		return c
	}
	return &Cell{val: ex.zero(t)}
}

func (ex *Exec) cellLoad(c *Cell) Value {
	if c.sparse != nil {
		panic(unsupported("load of whole sparse array"))
	}
	if c.kids == nil {
		return c.val
	}
	if c.isArr {
		a := make(ArrayV, len(c.kids))
		for i, k := range c.kids {
			a[i] = ex.cellLoad(k)
		}
		return a
	}
	s := make(StructV, len(c.kids))
	for i, k := range c.kids {
		s[i] = ex.cellLoad(k)
	}
	return s
}

func (ex *Exec) cellStore(c *Cell, v Value) {
	if c.kids == nil && c.sparse == nil {
		c.val = v
		return
	}
	switch vv := v.(type) {
	case StructV:
		for i, k := range c.kids {
			ex.cellStore(k, vv[i])
		}
	case ArrayV:
		for i, k := range c.kids {
			ex.cellStore(k, vv[i])
		}
	default:
		panic(unsupported(fmt.Sprintf("cellStore of %T into aggregate", v)))
	}
}

func (ex *Exec) cellAt(c *Cell, i int64) *Cell {
	if c.sparse != nil {
		k, ok := c.sparse[i]
		if !ok {
			k = ex.newCell(c.elemT)
			c.sparse[i] = k
		}
		return k
	}
	if i < 0 || i >= int64(len(c.kids)) {
		panic(fmt.Sprintf("internal: cell index %d out of %d", i, len(c.kids)))
	}
	return c.kids[i]
}
