#!/bin/sh
# runs every registered quick (or $1 = thorough) check in sequence and prints one summary line each
tier=${1:-quick}
cd "$(dirname "$0")"
for p in ${PROPS:-C01 C02 C03 C04 C05 C06 C07 C08 C09 C10 C11 C12 C13 C14 C15 C16 C17 C18 C19 C20}; do
  s=$(date +%s)
  timeout ${TIMEOUT:-7200} ./bin/vcheck run $p --tier $tier > /tmp/run_${tier}_$p.log 2>&1
  rc=$?
  e=$(date +%s)
  echo "$p exit=$rc $((e-s))s $(grep -c VIOLATION /tmp/run_${tier}_$p.log) viol; $(tail -1 /tmp/run_${tier}_$p.log | cut -c1-150)"
done
