//go:build verif

package ttheader

import (
	"github.com/cloudwego/gopkg/bufiox"
)

func init() {
	zzRegister("zzH_C10_framing", zzH_C10_framing)
	zzRegister("zzH_C10_info", zzH_C10_info)
	zzRegister("zzH_C06_roundtrip", zzH_C06_roundtrip)
}

func zzBE16(b []byte) int { return int(b[0])<<8 | int(b[1]) }
func zzBE32(b []byte) int {
	return int(b[0])<<24 | int(b[1])<<16 | int(b[2])<<8 | int(b[3])
}

func zzSupportedProto(p byte) bool {
	return zzOr(p == 0, zzOr(p == 3, zzOr(p == 4, zzOr(p == 0x10, p == 0x11))))
}

// zzH_C10_framing: arbitrary frame bytes; the framing arithmetic is compared with mathematical
// integers computed from the raw bytes.
func zzH_C10_framing() {
	n := zzParam("n")
	b := zzBytes("b", n)
	in := bufiox.NewBytesReader(b)
	p, err := Decode(nil, in)
	consumed := in.ReadLen()
	zzAssert(consumed <= n, "decode consumed more than the input holds")
	if n >= 14 {
		declared := 4 * zzBE16(b[12:14])
		zzAssert(consumed <= 14+declared, "decode consumed more than 14 bytes plus the declared header size")
		if err == nil {
			zzReach("decode-ok")
			zzAssert(zzAnd(b[4] == 0x10, b[5] == 0x00), "decode succeeded although the magic does not match")
			zzAssert(zzAnd(declared >= 2, declared <= 65536), "decode succeeded although the declared header size is outside 2..65536")
			zzAssert(n >= 14+declared, "decode succeeded although the frame is shorter than the declared header")
			zzAssert(p.HeaderLen == 14+declared, "header length is not 14 plus the declared size")
			zzAssert(p.PayloadLen == zzBE32(b[0:4])+4-p.HeaderLen, "payload length is not total length + 4 - header length")
			zzAssert(consumed == p.HeaderLen, "consumed bytes differ from the header length")
			if n >= 15 {
				zzAssert(zzSupportedProto(b[14]), "decode succeeded with an unsupported protocol id")
				zzAssert(byte(p.ProtocolID) == b[14], "protocol id differs from the frame")
			}
			zzAssert(uint16(p.Flags) == uint16(zzBE16(b[6:8])), "flags differ from the frame")
			zzAssert(uint32(p.SeqID) == uint32(zzBE32(b[8:12])), "sequence id differs from the frame")
		}
	} else {
		zzAssert(err != nil, "decode succeeded on fewer than 14 bytes")
	}
}

type zzKV struct {
	isInt bool
	ik    uint16
	sk    string
	v     string
}

// zzRefInfo parses the info sections of a header (reference, from the protocol description).
// ok=false when a section is incomplete or an unknown info id occurs.
func zzRefInfo(info []byte) (kvs []zzKV, sawInt, sawStr bool, ok bool) {
	if len(info) < 2 {
		return nil, false, false, false
	}
	nt := int(info[1])
	if nt > len(info)-2 {
		return nil, false, false, false
	}
	i := 2 + nt
	str2 := func() (string, bool) {
		if len(info)-i < 2 {
			return "", false
		}
		l := zzBE16(info[i:])
		if len(info)-i-2 < l {
			return "", false
		}
		s := string(info[i+2 : i+2+l])
		i += 2 + l
		return s, true
	}
	for i < len(info) {
		id := info[i]
		i++
		switch id {
		case 0:
		case 1:
			sawStr = true
			if len(info)-i < 2 {
				return nil, false, false, false
			}
			cnt := zzBE16(info[i:])
			i += 2
			for j := 0; j < cnt; j++ {
				k, ok1 := str2()
				if !ok1 {
					return nil, false, false, false
				}
				v, ok2 := str2()
				if !ok2 {
					return nil, false, false, false
				}
				kvs = append(kvs, zzKV{sk: k, v: v})
			}
		case 0x10:
			sawInt = true
			if len(info)-i < 2 {
				return nil, false, false, false
			}
			cnt := zzBE16(info[i:])
			i += 2
			for j := 0; j < cnt; j++ {
				if len(info)-i < 2 {
					return nil, false, false, false
				}
				k := uint16(zzBE16(info[i:]))
				i += 2
				v, ok2 := str2()
				if !ok2 {
					return nil, false, false, false
				}
				kvs = append(kvs, zzKV{isInt: true, ik: k, v: v})
			}
		case 0x11:
			sawStr = true
			v, ok2 := str2()
			if !ok2 {
				return nil, false, false, false
			}
			kvs = append(kvs, zzKV{sk: GDPRToken, v: v})
		default:
			return nil, false, false, false
		}
	}
	return kvs, sawInt, sawStr, true
}

// zzH_C10_info: a frame with correct meta and an arbitrary info section of 4*q bytes.
func zzH_C10_info() {
	q := zzParam("q") + 1
	info := zzBytes("info", 4*q)
	meta := zzBytes("meta", 14)
	zzAssume(zzAnd(meta[4] == 0x10, meta[5] == 0))
	zzAssume(zzAnd(meta[12] == 0, int(meta[13]) == q))
	frame := append(append([]byte(nil), meta...), info...)
	p, err := DecodeFromBytes(nil, frame)
	if err != nil {
		return
	}
	zzReach("decode-ok")
	kvs, _, _, ok := zzRefInfo(info)
	zzAssert(ok, "decode succeeded although an info section is incomplete or unknown")
	if !ok {
		return
	}
	zzAssert(zzSupportedProto(info[0]), "decode succeeded with an unsupported protocol id")
	// later entries override earlier ones: walk backwards and count distinct keys
	nInt, nStr := 0, 0
	for i := len(kvs) - 1; i >= 0; i-- {
		e := kvs[i]
		overridden := false
		for j := i + 1; j < len(kvs); j++ {
			if kvs[j].isInt == e.isInt && (e.isInt && kvs[j].ik == e.ik || !e.isInt && kvs[j].sk == e.sk) {
				overridden = true
			}
		}
		if overridden {
			continue
		}
		if e.isInt {
			nInt++
			got, has := p.IntInfo[e.ik]
			zzAssert(has, "an int-keyed entry of the frame is missing from the decoded map")
			zzAssertEqStr(got, e.v, "an int-keyed value differs from the frame")
		} else {
			nStr++
			got, has := p.StrInfo[e.sk]
			zzAssert(has, "a string-keyed entry of the frame is missing from the decoded map")
			zzAssertEqStr(got, e.v, "a string-keyed value differs from the frame")
		}
	}
	zzAssert(len(p.IntInfo) == nInt, "decoded int-keyed map has entries that are not in the frame")
	zzAssert(len(p.StrInfo) == nStr, "decoded string-keyed map has entries that are not in the frame")
}

// zzH_C06_roundtrip: encode symbolic parameters, check the layout, decode again.
func zzH_C06_roundtrip() {
	var param EncodeParam
	param.Flags = HeaderFlags(zzU16("flags"))
	param.SeqID = int32(zzU32("seq"))
	param.ProtocolID = ProtocolID(zzU8("proto"))
	lo, L := zzParam("lo"), zzParam("hi")
	zzLen := func(name string) int {
		if zzParam("pick") == 1 {
			return zzPick(name, lo, L)
		}
		return zzInt(name, lo, L)
	}
	nint := zzPick("nint", zzParam("minint"), zzParam("maxint"))
	nstr := zzPick("nstr", 0, zzParam("maxstr"))
	withACL := false
	if zzParam("acl") == 1 {
		withACL = zzBool("acl")
	}
	var ik [2]uint16
	var iv, sk, sv [2]string
	if nint > 0 || zzBool("intMapNonNil") {
		param.IntInfo = map[uint16]string{}
	}
	for i := 0; i < nint; i++ {
		ik[i] = zzU16("ikey")
		iv[i] = zzString("ival", zzLen("ivallen"))
		if i == 1 {
			zzAssume(ik[0] != ik[1])
		}
		param.IntInfo[ik[i]] = iv[i]
	}
	if nstr > 0 || withACL || zzBool("strMapNonNil") {
		param.StrInfo = map[string]string{}
	}
	for i := 0; i < nstr; i++ {
		sk[i] = zzString("skey", zzPick("skeylen", 0, 2))
		sv[i] = zzString("sval", zzLen("svallen"))
		if i == 1 {
			zzAssume(!zzEqStr(sk[0], sk[1]))
		}
		param.StrInfo[sk[i]] = sv[i]
	}
	var aclv string
	if withACL {
		aclv = zzString("aclval", zzLen("acllen"))
		param.StrInfo[GDPRToken] = aclv
	}
	// expected info size in mathematical integers
	size := 2
	if withACL {
		size += 1 + 2 + len(aclv)
	}
	if nstr > 0 {
		size += 3
		for i := 0; i < nstr; i++ {
			size += 2 + len(sk[i]) + 2 + len(sv[i])
		}
	}
	if nint > 0 {
		size += 3
		for i := 0; i < nint; i++ {
			size += 2 + 2 + len(iv[i])
		}
	}
	padded := (size + 3) / 4 * 4

	buf, err := EncodeToBytes(nil, param)
	if err != nil {
		zzReach("encode-error")
		zzAssert(padded > 65536, "encode failed although the header fits in 65536 bytes")
		return
	}
	zzReach("encode-ok")
	zzAssert(padded <= 65536, "encode produced a header larger than 65536 bytes")
	zzAssert(len(buf) == 14+padded, "bytes written differ from 14 + padded info size")
	zzAssert(zzAnd(buf[4] == 0x10, buf[5] == 0x00), "magic is not 0x1000")
	zzAssert(zzBE16(buf[6:8]) == int(param.Flags), "flags field differs")
	zzAssert(uint32(zzBE32(buf[8:12])) == uint32(param.SeqID), "sequence id field differs")
	zzAssert(zzBE16(buf[12:14])*4 == padded%(65536*4), "header size field is not the padded info size / 4")
	zzAssert(buf[14] == byte(param.ProtocolID), "protocol id byte differs")
	zzAssert(buf[15] == 0, "transform count is not zero")
	// padding bytes are zero
	if padded > size {
		for i := size; i < padded; i++ {
			zzAssert(buf[14+i] == 0, "padding byte is not zero")
		}
	}
	zzAssert(IsTTHeader(buf), "IsTTHeader rejects an encoded frame")
	zzAssert(IsStreaming(buf) == (param.Flags&HeaderFlagsStreaming != 0), "IsStreaming differs from the streaming flag")

	payload := zzInt("payloadLen", 0, 1<<30)
	total := len(buf) + payload - 4
	buf[0], buf[1], buf[2], buf[3] = byte(total>>24), byte(total>>16), byte(total>>8), byte(total)

	in := bufiox.NewBytesReader(buf)
	p, err := Decode(nil, in)
	if !zzSupportedProto(byte(param.ProtocolID)) {
		zzAssert(err != nil, "decode accepts an unsupported protocol id")
		return
	}
	zzAssert(err == nil, "decode rejects a frame produced by encode")
	if err != nil {
		return
	}
	zzReach("decode-ok")
	zzAssert(p.Flags == param.Flags, "decoded flags differ")
	zzAssert(p.SeqID == param.SeqID, "decoded sequence id differs")
	zzAssert(p.ProtocolID == param.ProtocolID, "decoded protocol id differs")
	zzAssert(p.HeaderLen == len(buf), "decoded header length differs from the bytes written")
	zzAssert(in.ReadLen() == len(buf), "decoder consumed a different number of bytes than were written")
	zzAssert(p.PayloadLen == payload, "decoded payload length differs from the payload length")
	zzAssert(len(p.IntInfo) == nint, "decoded int-keyed map size differs")
	for i := 0; i < nint; i++ {
		got, has := p.IntInfo[ik[i]]
		zzAssert(has, "int-keyed entry lost")
		zzAssertEqStr(got, iv[i], "int-keyed value differs")
	}
	want := nstr
	if withACL {
		want++
	}
	zzAssert(len(p.StrInfo) == want, "decoded string-keyed map size differs")
	for i := 0; i < nstr; i++ {
		got, has := p.StrInfo[sk[i]]
		zzAssert(has, "string-keyed entry lost")
		zzAssertEqStr(got, sv[i], "string-keyed value differs")
	}
	if withACL {
		got, has := p.StrInfo[GDPRToken]
		zzAssert(has, "ACL token entry lost")
		zzAssertEqStr(got, aclv, "ACL token value differs")
	}
}
