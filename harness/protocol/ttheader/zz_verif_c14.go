//go:build verif

package ttheader

func init() {
	zzRegister("zzH_C14_codec", zzH_C14_codec)
}

// zzH_C14_codec: header encode/decode cycles never store to package-level (shared) memory and two
// consecutive cycles each see their own parameters.
func zzH_C14_codec() {
	zzFreeze()
	for round := 0; round < 2; round++ {
		p := EncodeParam{Flags: HeaderFlags(zzU16("flags")), SeqID: int32(zzU32("seq")), ProtocolID: ProtocolIDThriftBinary}
		k, v := zzU16("ikey"), zzString("ival", zzPick("ivallen", 0, 2))
		p.IntInfo = map[uint16]string{k: v}
		buf, err := EncodeToBytes(nil, p)
		zzAssert(err == nil, "encode failed")
		if err != nil {
			return
		}
		total := len(buf) - 4
		buf[0], buf[1], buf[2], buf[3] = byte(total>>24), byte(total>>16), byte(total>>8), byte(total)
		d, err := DecodeFromBytes(nil, buf)
		zzAssert(err == nil, "decode failed")
		if err != nil {
			return
		}
		zzAssert(zzAnd(d.Flags == p.Flags, d.SeqID == p.SeqID), "a cycle saw another cycle's parameters")
		g, ok := d.IntInfo[k]
		zzAssert(ok, "entry lost")
		zzAssertEqStr(g, v, "a cycle saw another cycle's value")
	}
	zzReach("done")
}
