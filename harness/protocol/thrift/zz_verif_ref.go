//go:build verif

package thrift

// Reference model of the Thrift Binary grammar, written from the protocol specification in
// plain, bounds-checked Go (no unsafe, no tables shared with the implementation).

const (
	zzOK      = 0
	zzShort   = 1
	zzNeg     = 2
	zzBadType = 3
	zzDepth   = 4
)

func zzRefFixed(t TType) int {
	switch t {
	case 2, 3: // BOOL, BYTE
		return 1
	case 6: // I16
		return 2
	case 8: // I32
		return 4
	case 4, 10: // DOUBLE, I64
		return 8
	}
	return 0
}

func zzRefKnown(t TType) bool {
	switch t {
	case 2, 3, 4, 6, 8, 10, 11, 12, 13, 14, 15:
		return true
	}
	return false
}

func zzBE32(b []byte) int32 {
	return int32(uint32(b[0])<<24 | uint32(b[1])<<16 | uint32(b[2])<<8 | uint32(b[3]))
}

// zzRefSkip returns the extent of one value of type t at the start of b, or the first cause of
// failure in wire order.
func zzRefSkip(b []byte, t TType, depth int) (int, int) {
	if depth == 0 {
		return 0, zzDepth
	}
	if k := zzRefFixed(t); k > 0 {
		if len(b) < k {
			return 0, zzShort
		}
		return k, zzOK
	}
	switch t {
	case 11: // STRING
		if len(b) < 4 {
			return 0, zzShort
		}
		sz := zzBE32(b)
		if sz < 0 {
			return 0, zzNeg
		}
		if len(b)-4 < int(sz) {
			return 0, zzShort
		}
		return 4 + int(sz), zzOK
	case 14, 15: // SET, LIST
		if len(b) < 5 {
			return 0, zzShort
		}
		et := TType(b[0])
		sz := zzBE32(b[1:])
		if sz < 0 {
			return 0, zzNeg
		}
		if k := zzRefFixed(et); k > 0 {
			total := 5 + int(sz)*k
			if len(b) < total {
				return 0, zzShort
			}
			return total, zzOK
		}
		off := 5
		for i := int32(0); i < sz; i++ {
			n, c := zzRefSkip(b[off:], et, depth-1)
			if c != zzOK {
				return 0, c
			}
			off += n
		}
		return off, zzOK
	case 13: // MAP
		if len(b) < 6 {
			return 0, zzShort
		}
		kt, vt := TType(b[0]), TType(b[1])
		sz := zzBE32(b[2:])
		if sz < 0 {
			return 0, zzNeg
		}
		kk, vk := zzRefFixed(kt), zzRefFixed(vt)
		if kk > 0 && vk > 0 {
			total := 6 + int(sz)*(kk+vk)
			if len(b) < total {
				return 0, zzShort
			}
			return total, zzOK
		}
		off := 6
		for i := int32(0); i < sz; i++ {
			n, c := zzRefSkip(b[off:], kt, depth-1)
			if c != zzOK {
				return 0, c
			}
			off += n
			n, c = zzRefSkip(b[off:], vt, depth-1)
			if c != zzOK {
				return 0, c
			}
			off += n
		}
		return off, zzOK
	case 12: // STRUCT
		off := 0
		for {
			if len(b)-off < 1 {
				return 0, zzShort
			}
			ft := TType(b[off])
			off++
			if ft == 0 {
				return off, zzOK
			}
			if len(b)-off < 2 {
				return 0, zzShort
			}
			off += 2
			n, c := zzRefSkip(b[off:], ft, depth-1)
			if c != zzOK {
				return 0, c
			}
			off += n
		}
	}
	return 0, zzBadType
}

// zzCauseTypeID maps a reference failure cause to the Thrift protocol-exception type id.
func zzCauseTypeID(c int) int32 {
	switch c {
	case zzNeg:
		return NEGATIVE_SIZE
	case zzDepth:
		return DEPTH_LIMIT
	}
	return INVALID_DATA
}

// zzChunkSrc is an io.Reader over fixed data that hands out at most chunk bytes per call and
// reports io.EOF only after the data is exhausted (never together with data).
type zzChunkSrc struct {
	data  []byte
	pos   int
	chunk int
	calls int
}

func (s *zzChunkSrc) Read(p []byte) (int, error) {
	s.calls++
	if s.pos >= len(s.data) {
		return 0, zzEOF
	}
	n := len(s.data) - s.pos
	if n > s.chunk {
		n = s.chunk
	}
	if n > len(p) {
		n = len(p)
	}
	copy(p, s.data[s.pos:s.pos+n])
	s.pos += n
	return n, nil
}

var zzKnownTypes = [11]TType{2, 3, 4, 6, 8, 10, 11, 12, 13, 14, 15}

// zzTypeCase: cases 0..10 are the eleven defined wire types, case 11 is any other type byte.
func zzTypeCase(k int) TType {
	if k < 11 {
		return zzKnownTypes[k]
	}
	t := TType(zzU8("t"))
	zzAssume(!zzRefKnown(t))
	return t
}
