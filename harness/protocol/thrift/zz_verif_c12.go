//go:build verif

package thrift

import (
	"github.com/cloudwego/gopkg/bufiox"
)

func init() {
	zzRegister("zzH_C11_appex", zzH_C11_appex)
	zzRegister("zzH_C12_envelope", zzH_C12_envelope)
	zzRegister("zzH_C12_fastmsg", zzH_C12_fastmsg)
}

func zzPut32c(b []byte, v int) []byte { return append(b, zzRefU32(uint32(v))...) }

func zzPutStr(b []byte, s string) []byte { return append(zzRefU32(uint32(len(s))), s...) }

// zzGenValue appends a well-formed value of type t with small solver-chosen content. At depth 1
// containers take every element type; at depth 0 they hold 0..1 BYTE elements. Map key/value type
// pairs are (x, BYTE) and (BYTE, x) for every type x.
func zzGenValue(b []byte, t TType, depth int) []byte {
	switch t {
	case 2, 3:
		return append(b, zzU8("v1"))
	case 6:
		return append(b, zzU8("v2a"), zzU8("v2b"))
	case 8:
		return append(b, zzBytes("v4", 4)...)
	case 4, 10:
		return append(b, zzBytes("v8", 8)...)
	case 11:
		n := zzPick("strlen", 0, 2)
		return append(zzPut32c(b, n), zzBytes("strv", n)...)
	case 14, 15:
		et := TType(3)
		if depth > 0 {
			et = zzKnownTypes[zzPick("et", 0, 10)]
		}
		n := zzPick("count", 0, 1)
		b = zzPut32c(append(b, byte(et)), n)
		for i := 0; i < n; i++ {
			b = zzGenValue(b, et, depth-1)
		}
		return b
	case 13:
		kt, vt := TType(3), TType(3)
		if depth > 0 {
			x := zzKnownTypes[zzPick("mx", 0, 10)]
			if zzBool("mapKeyIsX") {
				kt = x
			} else {
				vt = x
			}
		}
		n := zzPick("count", 0, 1)
		b = zzPut32c(append(b, byte(kt), byte(vt)), n)
		for i := 0; i < n; i++ {
			b = zzGenValue(b, kt, depth-1)
			b = zzGenValue(b, vt, depth-1)
		}
		return b
	case 12:
		if depth > 0 && zzBool("innerField") {
			ft := zzKnownTypes[zzPick("ft", 0, 10)]
			b = append(b, byte(ft), zzU8("fidhi"), zzU8("fidlo"))
			b = zzGenValue(b, ft, depth-1)
		}
		return append(b, 0)
	}
	return b
}

// zzH_C11_appex: ApplicationException length / write / read, field order and unknown fields.
func zzH_C11_appex() {
	var msg string
	if zzParam("unit") == 0 {
		msg = zzString("msg", zzInt("msglen", 0, zzParam("L")))
	} else {
		msg = zzString("msg", zzPick("msglen", 0, 1))
	}
	tid := int32(zzU32("typeid"))
	e := NewApplicationException(tid, msg)
	l := e.BLength()
	buf := zzBytes("dst", l)
	zzAssert(e.FastWrite(buf) == l, "BLength differs from the bytes FastWrite produced")
	want := append(append([]byte{11, 0, 1}, zzPutStr(nil, msg)...), append([]byte{8, 0, 2}, append(zzRefU32(uint32(tid)), 0)...)...)
	zzAssertEqBytes(buf, want, "ApplicationException encoding differs from the wire format")
	got := NewApplicationException(0, "")
	n, err := got.FastRead(buf)
	zzAssert(zzAnd(err == nil, n == l), "FastRead failed or consumed a different length")
	zzAssert(got.TypeID() == tid, "type id differs after the round trip")
	zzAssertEqStr(got.Msg(), msg, "message differs after the round trip")
	if zzParam("unit") == 0 {
		zzReach("roundtrip")
		return
	}
	// field script: both orders, one unknown field at any position
	var b []byte
	pos := zzPick("unknownPos", 0, 2)
	swap := zzBool("swap")
	for i := 0; i <= 2; i++ {
		if pos == i {
			t := zzKnownTypes[zzPick("utype", 0, 10)]
			id := zzU16("uid")
			zzAssume(!(t == 11 && id == 1))
			zzAssume(!(t == 8 && id == 2))
			b = append(append(b, byte(t)), zzRefU16(id)...)
			b = zzGenValue(b, t, 1)
		}
		if i < 2 {
			if (i == 0) != swap {
				b = append(append(b, 11, 0, 1), zzPutStr(nil, msg)...)
			} else {
				b = append(append(b, 8, 0, 2), zzRefU32(uint32(tid))...)
			}
		}
	}
	b = append(b, 0)
	g2 := NewApplicationException(0, "")
	n, err = g2.FastRead(b)
	zzAssert(err == nil, "FastRead rejects a struct with reordered or unknown fields")
	if err == nil {
		zzAssert(n == len(b), "FastRead consumed a different number of bytes than the struct occupies")
		zzAssert(g2.TypeID() == tid, "type id disturbed by field order or unknown fields")
		zzAssertEqStr(g2.Msg(), msg, "message disturbed by field order or unknown fields")
	}
	zzReach("script")
}

// zzH_C12_envelope: message header by the three writers and the two readers.
func zzH_C12_envelope() {
	name := zzString("name", zzInt("namelen", 0, zzParam("L")))
	typeID := int32(zzU32("type"))
	seq := int32(zzU32("seq"))
	l := Binary.MessageBeginLength(name)
	want := append(zzRefU32(0x80010000|uint32(typeID)&0xffff), zzPutStr(nil, name)...)
	want = append(want, zzRefU32(uint32(seq))...)
	zzAssert(l == len(want), "MessageBeginLength differs from the encoding length")
	buf := zzBytes("dst", l)
	zzAssert(Binary.WriteMessageBegin(buf, name, typeID, seq) == l, "WriteMessageBegin returned a different length")
	zzAssertEqBytes(buf, want, "WriteMessageBegin differs from the wire format")
	prefix := zzAppendTarget()
	pc := append([]byte(nil), prefix...)
	app := Binary.AppendMessageBegin(prefix, name, typeID, seq)
	zzAssert(len(app) == len(pc)+l, "AppendMessageBegin length differs")
	if len(app) == len(pc)+l {
		zzAssertEqBytes(app[len(pc):], want, "AppendMessageBegin differs from the wire format")
	}
	w, bw, out := zzStreamWriter()
	zzAssert(w.WriteMessageBegin(name, typeID, seq) == nil, "stream WriteMessageBegin failed")
	zzAssert(bw.Flush() == nil, "flush failed")
	zzAssertEqBytes(*out, want, "stream WriteMessageBegin differs from the wire format")

	trail := zzBytes("trailing", zzInt("ntrail", 0, 2))
	enc := append(append([]byte(nil), want...), trail...)
	gn, gt, gs, gl, err := Binary.ReadMessageBegin(enc)
	zzAssert(err == nil, "ReadMessageBegin failed on a well-formed header")
	if err == nil {
		zzAssert(gl == l, "ReadMessageBegin consumed a different length")
		zzAssert(zzAnd(gt == typeID&0xffff, gs == seq), "ReadMessageBegin returned a different type or sequence id")
		zzAssertEqStr(gn, name, "ReadMessageBegin returned a different name")
	}
	br := bufiox.NewBytesReader(enc)
	r := NewBufferReader(br)
	gn, gt, gs, err = r.ReadMessageBegin()
	zzAssert(err == nil, "stream ReadMessageBegin failed on a well-formed header")
	if err == nil {
		zzAssert(br.ReadLen() == l, "stream ReadMessageBegin consumed a different length")
		zzAssert(zzAnd(gt == typeID&0xffff, gs == seq), "stream ReadMessageBegin returned a different type or sequence id")
		zzAssertEqStr(gn, name, "stream ReadMessageBegin returned a different name")
	}
	// truncation: every strict prefix is rejected
	cut := zzInt("cut", 0, 70020)
	zzAssume(cut < l)
	_, _, _, _, err = Binary.ReadMessageBegin(want[:cut])
	zzAssert(err != nil, "a truncated header was accepted")
	r2 := NewBufferReader(bufiox.NewBytesReader(want[:cut]))
	_, _, _, err = r2.ReadMessageBegin()
	zzAssert(err != nil, "a truncated header was accepted by the stream reader")
	// version check: any first word without the strict-version marker is bad-version
	first := zzU32("first")
	zzAssume(first&0xffff0000 != 0x80010000)
	bad := append(zzRefU32(first), want[4:]...)
	_, _, _, _, err = Binary.ReadMessageBegin(bad)
	pe, ok := err.(*ProtocolException)
	zzAssert(zzAnd(err != nil, ok), "header without the version marker not rejected with a protocol exception")
	if ok {
		zzAssert(pe.TypeId() == BAD_VERSION, "header without the version marker not rejected as bad-version")
	}
	r3 := NewBufferReader(bufiox.NewBytesReader(bad))
	_, _, _, err = r3.ReadMessageBegin()
	pe, ok = err.(*ProtocolException)
	zzAssert(zzAnd(err != nil, ok), "stream reader: header without the version marker not rejected with a protocol exception")
	if ok {
		zzAssert(pe.TypeId() == BAD_VERSION, "stream reader: header without the version marker not rejected as bad-version")
	}
	zzReach("done")
}

// zzH_C12_fastmsg: MarshalFastMsg / UnmarshalFastMsg incl. EXCEPTION messages.
func zzH_C12_fastmsg() {
	method := zzString("method", zzPick("methodlen", 0, 2))
	seq := int32(zzU32("seq"))
	payload := NewApplicationException(int32(zzU32("ptype")), zzString("pmsg", zzPick("pmsglen", 0, 2)))
	isEx := zzBool("exception")
	mt := TMessageType(CALL)
	if isEx {
		mt = EXCEPTION
	} else if zzBool("reply") {
		mt = REPLY
	}
	b, err := MarshalFastMsg(method, mt, seq, payload)
	if len(method) == 0 {
		zzAssert(err != nil, "MarshalFastMsg accepted an empty method name")
		return
	}
	zzAssert(err == nil, "MarshalFastMsg failed")
	if err != nil {
		return
	}
	target := NewApplicationException(0x5a5a5a5a, "untouched")
	gm, gs, err := UnmarshalFastMsg(b, target)
	zzAssertEqStr(gm, method, "method differs after marshal/unmarshal")
	zzAssert(gs == seq, "sequence id differs after marshal/unmarshal")
	if isEx {
		ae, ok := err.(*ApplicationException)
		zzAssert(ok, "an EXCEPTION message is not returned as an application-exception error")
		if ok {
			zzAssert(ae.TypeID() == payload.TypeID(), "exception type id differs")
			zzAssertEqStr(ae.Msg(), payload.Msg(), "exception text differs")
		}
		zzAssert(zzAnd(target.TypeID() == 0x5a5a5a5a, zzEqStr(target.Msg(), "untouched")), "an EXCEPTION message was decoded into the caller's struct")
		zzReach("exception")
	} else {
		zzAssert(err == nil, "UnmarshalFastMsg failed")
		zzAssert(target.TypeID() == payload.TypeID(), "payload differs after marshal/unmarshal")
		zzAssertEqStr(target.Msg(), payload.Msg(), "payload text differs after marshal/unmarshal")
		zzReach("payload")
	}
}
