//go:build verif

package thrift

import (
	"io"

	"github.com/cloudwego/gopkg/bufiox"
)

var zzEOF = io.EOF

func init() {
	zzRegister("zzH_C08_agree", zzH_C08_agree)
}

// zzH_C08_agree: on an arbitrary byte string and type tag, all five skippers accept exactly when
// the reference grammar does and report the reference's extent; failures of Binary.Skip carry the
// protocol-exception type of the reference's first cause (C17).
func zzH_C08_agree() {
	n := zzInt("n", 0, zzParam("N"))
	b := zzBytes("b", n)
	t := zzTypeCase(zzParam("unit") % 12)
	want, cause := zzRefSkip(b, t, 64)
	impl := zzParam("unit") / 12
	var err error
	var out []byte

	switch impl {
	case 0:
		// 1. buffer skip
		var l int
		l, err = Binary.Skip(b, t)
		if cause == zzOK {
			zzReach("ref-accepts")
			zzAssert(err == nil, "Binary.Skip rejects a well-formed value")
			zzAssert(zzOr(err != nil, l == want), "Binary.Skip extent differs from the grammar")
		} else {
			zzReach("ref-rejects")
			zzAssert(err != nil, "Binary.Skip accepts a malformed value")
			if err != nil {
				pe, ok := err.(*ProtocolException)
				zzAssert(ok, "Binary.Skip error is not a protocol exception")
				if ok {
					zzAssert(pe.TypeId() == zzCauseTypeID(cause), "Binary.Skip error type id does not name the cause")
				}
			}
		}

	case 1:
		// 2. stream-reader skip over the bytes-backed bufiox reader
		br := bufiox.NewBytesReader(b)
		r := NewBufferReader(br)
		err = r.Skip(t)
		if cause == zzOK {
			zzAssert(err == nil, "BufferReader.Skip rejects a well-formed value")
			zzAssert(zzOr(err != nil, br.ReadLen() == want), "BufferReader.Skip consumed length differs from the grammar")
		} else {
			zzAssert(err != nil, "BufferReader.Skip accepts a malformed value")
		}

	case 2:
		// 3. bytes skip decoder
		bd := NewBytesSkipDecoder(b)
		out, err = bd.Next(t)
		if cause == zzOK {
			zzAssert(err == nil, "BytesSkipDecoder rejects a well-formed value")
			if err == nil {
				zzAssert(len(out) == want, "BytesSkipDecoder extent differs from the grammar")
			}
		} else {
			zzAssert(err != nil, "BytesSkipDecoder accepts a malformed value")
		}

	case 3:
		// 4. skip decoder over a bufiox reader
		br2 := bufiox.NewBytesReader(b)
		sd := NewSkipDecoder(br2)
		out, err = sd.Next(t)
		if cause == zzOK {
			zzAssert(err == nil, "SkipDecoder rejects a well-formed value")
			if err == nil {
				zzAssert(len(out) == want, "SkipDecoder extent differs from the grammar")
				zzAssert(br2.ReadLen() == want, "SkipDecoder consumed length differs from the grammar")
			}
		} else {
			zzAssert(err != nil, "SkipDecoder accepts a malformed value")
		}

	case 4:
		// 5. skip decoder over a plain io.Reader
		src := &zzChunkSrc{data: b, chunk: zzParam("chunk")}
		rd := NewReaderSkipDecoder(src)
		out, err = rd.Next(t)
		if cause == zzOK {
			zzAssert(err == nil, "ReaderSkipDecoder rejects a well-formed value")
			if err == nil {
				zzAssert(len(out) == want, "ReaderSkipDecoder extent differs from the grammar")
				zzAssert(src.pos == want, "ReaderSkipDecoder pulled bytes beyond the value from the source")
			}
		} else {
			zzAssert(err != nil, "ReaderSkipDecoder accepts a malformed value")
		}
	}
}
