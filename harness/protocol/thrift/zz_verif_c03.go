//go:build verif

package thrift

func init() {
	zzRegister("zzH_C03_scalars", zzH_C03_scalars)
	zzRegister("zzH_C03_skip", zzH_C03_skip)
}

// zzH_C03_scalars: every scalar/header reader on an arbitrary byte string.
func zzH_C03_scalars() {
	n := zzInt("n", 0, zzParam("N"))
	b := zzBytes("b", n)
	switch zzPick("which", 0, 12) {
	case 0:
		_, l, err := Binary.ReadBool(b)
		zzAssert(zzOr(err != nil, zzAnd(l >= 0, l <= len(b))), "ReadBool over-reports")
	case 1:
		_, l, err := Binary.ReadByte(b)
		zzAssert(zzOr(err != nil, zzAnd(l >= 0, l <= len(b))), "ReadByte over-reports")
	case 2:
		_, l, err := Binary.ReadI16(b)
		zzAssert(zzOr(err != nil, zzAnd(l >= 0, l <= len(b))), "ReadI16 over-reports")
	case 3:
		_, l, err := Binary.ReadI32(b)
		zzAssert(zzOr(err != nil, zzAnd(l >= 0, l <= len(b))), "ReadI32 over-reports")
	case 4:
		_, l, err := Binary.ReadI64(b)
		zzAssert(zzOr(err != nil, zzAnd(l >= 0, l <= len(b))), "ReadI64 over-reports")
	case 5:
		_, l, err := Binary.ReadDouble(b)
		zzAssert(zzOr(err != nil, zzAnd(l >= 0, l <= len(b))), "ReadDouble over-reports")
	case 6:
		_, l, err := Binary.ReadString(b)
		zzAssert(zzOr(err != nil, zzAnd(l >= 0, l <= len(b))), "ReadString over-reports")
	case 7:
		_, l, err := Binary.ReadBinary(b)
		zzAssert(zzOr(err != nil, zzAnd(l >= 0, l <= len(b))), "ReadBinary over-reports")
	case 8:
		_, _, l, err := Binary.ReadFieldBegin(b)
		zzAssert(zzOr(err != nil, zzAnd(l >= 0, l <= len(b))), "ReadFieldBegin over-reports")
	case 9:
		_, _, _, l, err := Binary.ReadMapBegin(b)
		zzAssert(zzOr(err != nil, zzAnd(l >= 0, l <= len(b))), "ReadMapBegin over-reports")
	case 10:
		_, _, l, err := Binary.ReadListBegin(b)
		zzAssert(zzOr(err != nil, zzAnd(l >= 0, l <= len(b))), "ReadListBegin over-reports")
	case 11:
		_, _, l, err := Binary.ReadSetBegin(b)
		zzAssert(zzOr(err != nil, zzAnd(l >= 0, l <= len(b))), "ReadSetBegin over-reports")
	case 12:
		_, _, _, l, err := Binary.ReadMessageBegin(b)
		zzAssert(zzOr(err != nil, zzAnd(l >= 0, l <= len(b))), "ReadMessageBegin over-reports")
	}
}

// zzH_C03_skip: Binary.Skip on an arbitrary byte string and an arbitrary type byte.
func zzH_C03_skip() {
	n := zzInt("n", 0, zzParam("N"))
	b := zzBytes("b", n)
	t := TType(zzU8("t"))
	l, err := Binary.Skip(b, t)
	zzAssert(zzOr(err != nil, zzAnd(l >= 0, l <= len(b))), "Skip over-reports")
}
