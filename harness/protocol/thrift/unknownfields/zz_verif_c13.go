//go:build verif

package unknownfields

import (
	"github.com/cloudwego/gopkg/protocol/thrift"
)

func init() {
	zzRegister("zzH_C13_roundtrip", zzH_C13_roundtrip)
	zzRegister("zzH_C13_bytes", zzH_C13_bytes)
}

var zzTypes = [11]thrift.TType{2, 3, 4, 6, 8, 10, 11, 12, 13, 14, 15}

// zzPickType picks a wire type; at depth 0 only scalar/string types are offered.
func zzPickType(depth int) thrift.TType {
	if depth <= 0 {
		return zzTypes[zzPick("leafType", 0, 6)]
	}
	return zzTypes[zzPick("type", 0, 10)]
}

func zzPut32(b []byte, v int) []byte {
	return append(b, byte(v>>24), byte(v>>16), byte(v>>8), byte(v))
}

// zzGen appends a well-formed value of type t (canonical bools) built from solver-chosen leaves.
func zzGen(b []byte, t thrift.TType, depth int) []byte {
	switch t {
	case 2:
		if zzBool("boolv") {
			return append(b, 1)
		}
		return append(b, 0)
	case 3:
		return append(b, zzU8("bytev"))
	case 6:
		return append(b, zzU8("i16a"), zzU8("i16b"))
	case 8:
		return append(b, zzBytes("i32v", 4)...)
	case 4, 10:
		return append(b, zzBytes("i64v", 8)...)
	case 11:
		n := zzPick("strlen", 0, 2)
		b = zzPut32(b, n)
		return append(b, zzBytes("strv", n)...)
	case 14, 15:
		et := zzPickType(depth - 1)
		n := zzPick("count", 0, zzParam("E"))
		b = append(b, byte(et))
		b = zzPut32(b, n)
		for i := 0; i < n; i++ {
			b = zzGen(b, et, depth-1)
		}
		return b
	case 13:
		kt, vt := zzPickType(depth-1), zzPickType(depth-1)
		n := zzPick("count", 0, zzParam("E"))
		b = append(b, byte(kt), byte(vt))
		b = zzPut32(b, n)
		for i := 0; i < n; i++ {
			b = zzGen(b, kt, depth-1)
			b = zzGen(b, vt, depth-1)
		}
		return b
	case 12:
		nf := zzPick("nfields", 0, zzParam("F"))
		for i := 0; i < nf; i++ {
			fd := depth - 1
			if i > 0 {
				fd = 0 // later fields: scalar/string types (what matters is that they follow a container)
			}
			ft := zzPickType(fd)
			b = append(b, byte(ft), zzU8("idhi"), zzU8("idlo"))
			b = zzGen(b, ft, depth-1)
		}
		return append(b, 0)
	}
	zzFail("generator: unknown type")
	return b
}

// zzTagsMeaningful: element/key/value tags are zero wherever they carry no meaning.
func zzTagsMeaningful(fs []UnknownField) {
	for i := range fs {
		f := &fs[i]
		switch f.Type {
		case thrift.MAP:
		case thrift.LIST, thrift.SET:
			zzAssert(f.KeyType == 0, "key type tag set on a list/set")
		default:
			zzAssert(f.KeyType == 0, "key type tag set on a field that is not a map")
			zzAssert(f.ValType == 0, "value type tag set on a field that is not a container")
		}
		if sub, ok := f.Value.([]UnknownField); ok {
			zzTagsMeaningful(sub)
		}
	}
}

func zzTreeEq(a, b []UnknownField) {
	zzAssert(len(a) == len(b), "trees differ in the number of fields")
	if len(a) != len(b) {
		return
	}
	for i := range a {
		x, y := &a[i], &b[i]
		zzAssert(zzAnd(x.ID == y.ID, zzAnd(x.Type == y.Type, zzAnd(x.KeyType == y.KeyType, x.ValType == y.ValType))), "trees differ in id or type tags")
		switch xv := x.Value.(type) {
		case []UnknownField:
			yv, ok := y.Value.([]UnknownField)
			zzAssert(ok, "trees differ in shape")
			if ok {
				zzTreeEq(xv, yv)
			}
		case string:
			yv, ok := y.Value.(string)
			zzAssert(ok, "trees differ in shape")
			if ok {
				zzAssertEqStr(xv, yv, "string leaves differ")
			}
		case bool:
			yv, ok := y.Value.(bool)
			zzAssert(zzAnd(ok, xv == yv), "bool leaves differ")
		case int8:
			yv, ok := y.Value.(int8)
			zzAssert(zzAnd(ok, xv == yv), "byte leaves differ")
		case int16:
			yv, ok := y.Value.(int16)
			zzAssert(zzAnd(ok, xv == yv), "i16 leaves differ")
		case int32:
			yv, ok := y.Value.(int32)
			zzAssert(zzAnd(ok, xv == yv), "i32 leaves differ")
		case int64:
			yv, ok := y.Value.(int64)
			zzAssert(zzAnd(ok, xv == yv), "i64 leaves differ")
		case float64:
			yv, ok := y.Value.(float64)
			zzAssert(ok, "trees differ in shape")
			if ok {
				zzAssert(zzF64Bits(xv) == zzF64Bits(yv), "double leaves differ")
			}
		}
	}
}

func zzRoundTrip(b []byte) {
	fs, err := ConvertUnknownFields(b)
	zzAssert(err == nil, "conversion of a well-formed field sequence failed")
	if err != nil {
		return
	}
	zzTagsMeaningful(fs)
	l, err := UnknownFieldsLength(fs)
	zzAssert(zzAnd(err == nil, l == len(b)), "computed length differs from the byte count")
	if err != nil || l != len(b) {
		return
	}
	out := zzBytes("dirtyDst", l) // a reused buffer: arbitrary previous contents
	n, err := WriteUnknownFields(out, fs)
	zzAssert(zzAnd(err == nil, n == l), "written length differs from the computed length")
	zzAssertEqBytes(out, b, "writing the tree back does not reproduce the bytes")
	fs2, err := ConvertUnknownFields(out)
	zzAssert(err == nil, "conversion of the written bytes failed")
	if err == nil {
		zzTreeEq(fs, fs2)
	}
	zzReach("roundtrip")
}

// zzH_C13_roundtrip: generated field sequences (1..2 top-level fields; the first has the unit's type).
func zzH_C13_roundtrip() {
	t := zzTypes[zzParam("unit")]
	depth := zzParam("D")
	if t == 12 {
		depth = zzParam("DS")
	}
	var b []byte
	b = append(b, byte(t), zzU8("idhi"), zzU8("idlo"))
	b = zzGen(b, t, depth)
	if zzParam("unit") < 7 && zzBool("second") {
		t2 := zzPickType(0)
		b = append(b, byte(t2), zzU8("idhi"), zzU8("idlo"))
		b = zzGen(b, t2, 0)
	}
	zzRoundTrip(b)
}

func zzNoBool(fs []UnknownField) bool {
	for i := range fs {
		if fs[i].Type == thrift.BOOL {
			return false
		}
		if sub, ok := fs[i].Value.([]UnknownField); ok {
			if !zzNoBool(sub) {
				return false
			}
		}
	}
	return true
}

// zzH_C13_bytes: arbitrary bytes; whenever conversion succeeds the tree is consistent with them.
func zzH_C13_bytes() {
	n := zzInt("n", 1, zzParam("N"))
	b := zzBytes("b", n)
	fs, err := ConvertUnknownFields(b)
	if err != nil {
		return
	}
	zzReach("converted")
	zzTagsMeaningful(fs)
	l, err := UnknownFieldsLength(fs)
	zzAssert(zzAnd(err == nil, l == n), "computed length differs from the byte count")
	if err != nil || l != n {
		return
	}
	out := make([]byte, l)
	wn, err := WriteUnknownFields(out, fs)
	zzAssert(zzAnd(err == nil, wn == l), "written length differs from the computed length")
	if zzNoBool(fs) {
		zzAssertEqBytes(out, b, "writing the tree back does not reproduce the bytes")
	}
}
