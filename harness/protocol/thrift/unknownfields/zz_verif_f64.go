//go:build verif

package unknownfields

import "math"

func zzF64Bits(f float64) uint64 { return math.Float64bits(f) }
