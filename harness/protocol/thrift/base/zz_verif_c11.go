//go:build verif

package base

import (
	"github.com/cloudwego/gopkg/internal/testutils/netpoll"
	"github.com/cloudwego/gopkg/protocol/thrift"
)

func init() {
	zzRegister("zzH_C15_direct", zzH_C15_direct)
	zzRegister("zzH_C11_base", zzH_C11_base)
	zzRegister("zzH_C11_baseresp", zzH_C11_baseresp)
	zzRegister("zzH_C11_script", zzH_C11_script)
	zzRegister("zzH_C15_nocopy", zzH_C15_nocopy)
}

func zzExtra(prefix string) (m map[string]string, kk, vv [2]string, n int) {
	switch zzPick(prefix+"extraKind", 0, 3) {
	case 0:
		return nil, kk, vv, 0
	case 1:
		return map[string]string{}, kk, vv, 0
	case 2:
		n = 1
	case 3:
		n = 2
	}
	m = map[string]string{}
	for i := 0; i < n; i++ {
		if n == 1 {
			kk[i] = zzString("ekey", zzPick("ekeylen", 0, 1))
			vv[i] = zzString("eval", zzPick("evallen", 0, 1))
		} else {
			kk[i] = zzString("ekey", 1)
			vv[i] = zzString("eval", 1)
		}
		if i == 1 {
			zzAssume(!zzEqStr(kk[0], kk[1]))
		}
		m[kk[i]] = vv[i]
	}
	return m, kk, vv, n
}

func zzCheckExtra(got map[string]string, want map[string]string, kk, vv [2]string, n int) {
	zzAssert((got == nil) == (want == nil), "an absent map became present or an empty map became absent")
	zzAssert(len(got) == n, "map size differs after the round trip")
	for i := 0; i < n; i++ {
		g, ok := got[kk[i]]
		zzAssert(ok, "map entry lost in the round trip")
		zzAssertEqStr(g, vv[i], "map value differs after the round trip")
	}
}

// zzLen: the field selected by the unit has a symbolic length 0..L, the others a picked small one,
// so that at most one offset variable is symbolic on any path.
func zzLen(name string, k int) int {
	if zzParam("unit") == k {
		return zzInt(name, 0, zzParam("L"))
	}
	return zzPick(name, 0, 2)
}

var zzThresholdLens = [5]int{0, 1, 4095, 4096, 4097}

func zzH_C11_base() {
	p := &Base{LogID: zzString("logid", zzLen("l1", 0)), Caller: zzString("caller", zzLen("l2", 1)), Addr: zzString("addr", zzLen("l3", 2))}
	var kk, vv [2]string
	var n int
	p.Extra, kk, vv, n = zzExtra("")
	l := p.BLength()
	buf := zzBytes("dst", l)
	wn := p.FastWrite(buf)
	zzAssert(wn == l, "BLength differs from the bytes FastWrite produced")
	trail := zzBytes("trail", zzInt("ntrail", 0, 2))
	enc := append(append([]byte(nil), buf...), trail...)
	q := &Base{}
	rn, err := q.FastRead(enc)
	zzAssert(err == nil, "FastRead failed on FastWrite output")
	zzAssert(rn == l, "FastRead consumed a different number of bytes than were written")
	zzAssertEqStr(q.LogID, p.LogID, "LogID differs after the round trip")
	zzAssertEqStr(q.Caller, p.Caller, "Caller differs after the round trip")
	zzAssertEqStr(q.Addr, p.Addr, "Addr differs after the round trip")
	zzCheckExtra(q.Extra, p.Extra, kk, vv, n)
	// nil receiver
	var np *Base
	zzAssert(np.BLength() == 1, "nil receiver length is not 1")
	one := zzBytes("one", 1)
	zzAssert(zzAnd(np.FastWrite(one) == 1, one[0] == 0), "nil receiver does not encode as a lone stop byte")
	zzReach("roundtrip")
}

func zzH_C11_baseresp() {
	p := &BaseResp{StatusMessage: zzString("msg", zzLen("l1", 0)), StatusCode: int32(zzU32("code"))}
	var kk, vv [2]string
	var n int
	p.Extra, kk, vv, n = zzExtra("")
	l := p.BLength()
	buf := zzBytes("dst", l)
	wn := p.FastWrite(buf)
	zzAssert(wn == l, "BLength differs from the bytes FastWrite produced")
	q := &BaseResp{}
	rn, err := q.FastRead(buf)
	zzAssert(err == nil, "FastRead failed on FastWrite output")
	zzAssert(rn == l, "FastRead consumed a different number of bytes than were written")
	zzAssertEqStr(q.StatusMessage, p.StatusMessage, "StatusMessage differs after the round trip")
	zzAssert(q.StatusCode == p.StatusCode, "StatusCode differs after the round trip")
	zzCheckExtra(q.Extra, p.Extra, kk, vv, n)
	var np *BaseResp
	zzAssert(np.BLength() == 1, "nil receiver length is not 1")
	zzReach("roundtrip")
}

func zzPut16(b []byte, v uint16) []byte { return append(b, byte(v>>8), byte(v)) }
func zzPut32(b []byte, v int) []byte {
	return append(b, byte(v>>24), byte(v>>16), byte(v>>8), byte(v))
}
func zzPutStr(b []byte, s string) []byte { return append(zzPut32(b, len(s)), s...) }

var zzTypes = [11]thrift.TType{2, 3, 4, 6, 8, 10, 11, 12, 13, 14, 15}

// zzGenValue appends a well-formed value of type t with small solver-chosen content. At depth 1
// containers take every element type; at depth 0 they hold 0..1 BYTE elements. Map key/value type
// pairs are (x, BYTE) and (BYTE, x) for every type x.
func zzGenValue(b []byte, t thrift.TType, depth int) []byte {
	switch t {
	case 2, 3:
		return append(b, zzU8("v1"))
	case 6:
		return append(b, zzU8("v2a"), zzU8("v2b"))
	case 8:
		return append(b, zzBytes("v4", 4)...)
	case 4, 10:
		return append(b, zzBytes("v8", 8)...)
	case 11:
		n := zzPick("strlen", 0, 2)
		return append(zzPut32(b, n), zzBytes("strv", n)...)
	case 14, 15:
		et := thrift.TType(3)
		if depth > 0 {
			et = zzTypes[zzPick("et", 0, 10)]
		}
		n := zzPick("count", 0, 1)
		b = zzPut32(append(b, byte(et)), n)
		for i := 0; i < n; i++ {
			b = zzGenValue(b, et, depth-1)
		}
		return b
	case 13:
		kt, vt := thrift.TType(3), thrift.TType(3)
		if depth > 0 {
			x := zzTypes[zzPick("mx", 0, 10)]
			if zzBool("mapKeyIsX") {
				kt = x
			} else {
				vt = x
			}
		}
		n := zzPick("count", 0, 1)
		b = zzPut32(append(b, byte(kt), byte(vt)), n)
		for i := 0; i < n; i++ {
			b = zzGenValue(b, kt, depth-1)
			b = zzGenValue(b, vt, depth-1)
		}
		return b
	case 12:
		if depth > 0 && zzBool("innerField") {
			ft := zzTypes[zzPick("ft", 0, 10)]
			b = append(b, byte(ft), zzU8("fidhi"), zzU8("fidlo"))
			b = zzGenValue(b, ft, depth-1)
		}
		return append(b, 0)
	}
	return b
}

// zzUnknownField appends a field that the struct does not know: any type, any id, except the
// (id, type) pairs the struct defines.
func zzUnknownField(b []byte, isBase bool) []byte {
	t := zzTypes[zzPick("utype", 0, 10)]
	id := zzU16("uid")
	if isBase {
		zzAssume(!(t == 11 && (id == 1 || id == 2 || id == 3)))
		zzAssume(!(t == 13 && id == 6))
	} else {
		zzAssume(!(t == 11 && id == 1))
		zzAssume(!(t == 8 && id == 2))
		zzAssume(!(t == 13 && id == 3))
	}
	b = zzPut16(append(b, byte(t)), id)
	return zzGenValue(b, t, 1)
}

// zzH_C11_script: the known fields in any order, with unknown fields before, between and after.
func zzH_C11_script() {
	logid, caller, addr := zzString("logid", zzPick("l1", 0, 1)), zzString("caller", 1), zzString("addr", 2)
	ek, ev := zzString("ekey", 1), zzString("eval", zzPick("evl", 0, 1))
	withExtra := zzBool("withExtra")
	perm := zzPick("perm", 0, zzParam("perms")-1)
	order := [6][3]int{{0, 1, 2}, {0, 2, 1}, {1, 0, 2}, {1, 2, 0}, {2, 0, 1}, {2, 1, 0}}[perm]
	extraPos := 0
	if withExtra {
		extraPos = zzPick("extraPos", 0, 3)
	}
	unknownPos := zzParam("unit") // 0..4: before field 0,1,2, after all, none... two unknowns in thorough
	var b []byte
	emit := func(k int) {
		switch k {
		case 0:
			b = zzPutStr(zzPut16(append(b, 11), 1), logid)
		case 1:
			b = zzPutStr(zzPut16(append(b, 11), 2), caller)
		case 2:
			b = zzPutStr(zzPut16(append(b, 11), 3), addr)
		}
	}
	for i := 0; i <= 3; i++ {
		if unknownPos == i {
			b = zzUnknownField(b, true)
			if zzParam("two") == 1 {
				b = zzUnknownField(b, true)
			}
		}
		if withExtra && extraPos == i {
			b = zzPut16(append(b, 13), 6)
			b = zzPut32(append(b, 11, 11), 1)
			b = zzPutStr(zzPutStr(b, ek), ev)
		}
		if i < 3 {
			emit(order[i])
		}
	}
	b = append(b, 0)
	q := &Base{}
	n, err := q.FastRead(b)
	zzAssert(err == nil, "FastRead rejects a struct with reordered or unknown fields")
	zzAssert(zzOr(err != nil, n == len(b)), "FastRead consumed a different number of bytes than the struct occupies")
	if err == nil {
		zzAssertEqStr(q.LogID, logid, "LogID disturbed by field order or unknown fields")
		zzAssertEqStr(q.Caller, caller, "Caller disturbed by field order or unknown fields")
		zzAssertEqStr(q.Addr, addr, "Addr disturbed by field order or unknown fields")
		if withExtra {
			g, ok := q.Extra[ek]
			zzAssert(zzAnd(ok, len(q.Extra) == 1), "Extra disturbed by field order or unknown fields")
			zzAssertEqStr(g, ev, "Extra value disturbed by field order or unknown fields")
		} else {
			zzAssert(q.Extra == nil, "Extra set although the field is absent")
		}
	}
	zzReach("read")
}

// zzH_C15_nocopy: the no-copy path with a direct writer, spliced, equals the copying path.
func zzH_C15_nocopy() {
	unit := zzParam("unit")
	var p *Base
	if unit < 4 {
		p = &Base{LogID: zzString("logid", zzLen("l1", 0)), Caller: zzString("caller", zzLen("l2", 1)), Addr: zzString("addr", zzLen("l3", 2))}
		if zzBool("withExtra") {
			p.Extra = map[string]string{zzString("ekey", zzPick("ekl", 0, 1)): zzString("eval", zzLen("evl", 3))}
		}
	} else {
		// every combination of lengths around the threshold, several large fields in one struct
		tl := func(name string) int { return zzThresholdLens[zzPick(name, 0, 4)] }
		p = &Base{LogID: zzString("logid", tl("l1")), Caller: zzString("caller", tl("l2")), Addr: zzString("addr", tl("l3"))}
		if zzBool("withExtra") {
			p.Extra = map[string]string{zzString("ekey", zzPick("ekl", 0, 1)): zzString("eval", tl("evl"))}
		}
	}
	l := p.BLength()
	plain := zzBytes("plain", l)
	zzAssert(p.FastWrite(plain) == l, "BLength differs from the copying writer's output")
	// without a direct writer the two paths are byte-identical
	nc := zzBytes("nocopyNil", l)
	zzAssert(p.FastWriteNocopy(nc, nil) == l, "no-copy path without a writer returned a different length")
	zzAssertEqBytes(nc, plain, "no-copy path without a writer differs from the copying path")
	// with a direct writer: splice the directly written pieces in
	w := &netpoll.NetpollDirectWriter{}
	buf := w.Malloc(l)
	n := p.FastWriteNocopy(buf, w)
	zzAssert(n <= l, "no-copy path reports more bytes than the advertised length")
	if w.WriteDirectN() > 0 {
		zzReach("direct")
	} else {
		zzReach("copied")
	}
	out := w.Bytes()
	zzAssertEqBytes(out, plain, "spliced no-copy stream differs from the copying path")
	zzReach("done")
}

// zzH_C15_direct: WriteStringNocopy / WriteBinaryNocopy into a buffer with spare capacity behind
// its length, and BaseResp with large message / map key / map value.
func zzH_C15_direct() {
	unit := zzParam("unit")
	w := &netpoll.NetpollDirectWriter{}
	if unit < 2 {
		n := zzInt("vlen", 0, zzParam("L"))
		v := zzBytes("v", n)
		// the output buffer has spare capacity behind its length (a length-limited view of a larger
		// block); the library indicates the splice position relative to the end of the slice it was given
		spare := zzInt("spare", 0, 64)
		buf := zzBytesCap("dst", 4+n, 4+n+spare)
		dw := &zzDirectW{}
		var wn int
		plain := zzBytes("plain", 4+n)
		if unit == 0 {
			wn = thrift.Binary.WriteBinaryNocopy(buf, dw, v)
			thrift.Binary.WriteBinary(plain, v)
			zzAssert(thrift.Binary.BinaryLengthNocopy(v) == thrift.Binary.BinaryLength(v), "no-copy length differs")
		} else {
			wn = thrift.Binary.WriteStringNocopy(buf, dw, string(v))
			thrift.Binary.WriteString(plain, string(v))
			zzAssert(thrift.Binary.StringLengthNocopy(string(v)) == thrift.Binary.StringLength(string(v)), "no-copy length differs")
		}
		zzAssert(zzAnd(wn >= 4, wn <= 4+n), "no-copy writer reports an impossible buffered length")
		if wn >= 4 && wn <= 4+n {
			zzAssertEqBytes(zzSplice(buf, wn, dw), plain, "spliced no-copy stream differs from the copying path")
		}
		zzReach("done")
		return
	}
	// BaseResp: one of message / map key / map value is large
	tl := func(name string, k int) int {
		if unit-2 == k {
			return zzThresholdLens[zzPick(name, 2, 4)]
		}
		return zzPick(name, 0, 1)
	}
	p := &BaseResp{StatusMessage: zzString("msg", tl("l1", 0)), StatusCode: int32(zzU32("code"))}
	p.Extra = map[string]string{zzString("ekey", tl("ekl", 1)): zzString("eval", tl("evl", 2))}
	l := p.BLength()
	plain := zzBytes("plain", l)
	zzAssert(p.FastWrite(plain) == l, "BLength differs from the copying writer's output")
	buf := w.Malloc(l)
	n := p.FastWriteNocopy(buf, w)
	zzAssert(n <= l, "no-copy path reports more bytes than the advertised length")
	zzAssertEqBytes(w.Bytes(), plain, "spliced no-copy stream differs from the copying path (BaseResp)")
	zzReach("done")
}

// zzDirectW records direct writes together with the position the library indicates
// (remainCap = number of bytes between the splice point and the end of the slice it was given).
type zzDirectW struct {
	pieces [][]byte
	rem    []int
}

func (w *zzDirectW) WriteDirect(b []byte, remainCap int) error {
	w.pieces = append(w.pieces, b)
	w.rem = append(w.rem, remainCap)
	return nil
}

// zzSplice rebuilds the stream: buffered bytes buf[:nbuf] with each direct piece inserted at
// len(buf)-remainCap.
func zzSplice(buf []byte, nbuf int, w *zzDirectW) []byte {
	var out []byte
	start := 0
	for i := range w.pieces {
		end := len(buf) - w.rem[i]
		zzAssert(zzAnd(end >= start, end <= nbuf), "indicated splice position lies outside the buffered bytes")
		if end < start || end > nbuf {
			return out
		}
		out = append(out, buf[start:end]...)
		out = append(out, w.pieces[i]...)
		start = end
	}
	return append(out, buf[start:nbuf]...)
}
