//go:build verif

package base

import "github.com/cloudwego/gopkg/protocol/thrift"

func init() {
	zzRegister("zzH_C03_fastread", zzH_C03_fastread)
}

// zzH_C03_fastread: the shipped FastRead structs and the generic message unmarshal on arbitrary
// bytes: no panic, no read outside the slice, consumed <= len on success.
func zzH_C03_fastread() {
	maxn := zzParam("N")
	if zzParam("unit") == 4 {
		maxn += 12 // room for the message header in front of the struct
	}
	n := zzInt("n", 0, maxn)
	b := zzBytes("b", n)
	switch zzParam("unit") {
	case 0:
		var p Base
		l, err := p.FastRead(b)
		zzAssert(zzOr(err != nil, zzAnd(l >= 0, l <= n)), "Base.FastRead over-reports")
	case 1:
		var p BaseResp
		l, err := p.FastRead(b)
		zzAssert(zzOr(err != nil, zzAnd(l >= 0, l <= n)), "BaseResp.FastRead over-reports")
	case 2:
		e := thrift.NewApplicationException(0, "")
		l, err := e.FastRead(b)
		zzAssert(zzOr(err != nil, zzAnd(l >= 0, l <= n)), "ApplicationException.FastRead over-reports")
	case 3:
		var p Base
		_ = thrift.FastUnmarshal(b, &p)
	case 4:
		var p BaseResp
		_, _, _ = thrift.UnmarshalFastMsg(b, &p)
	}
	zzReach("done")
}
