//go:build verif

package thrift

import (
	"github.com/cloudwego/gopkg/bufiox"
)

func init() {
	zzRegister("zzH_C09_skipdecoder", zzH_C09_skipdecoder)
}

// zzH_C09_skipdecoder: skip-decoder results stay valid (SkipDecoder: until the reader's Release;
// ReaderSkipDecoder: until the next Next) while a pool co-tenant scribbles over recycled buffers.
func zzH_C09_skipdecoder() {
	n := zzInt("strlen", 0, zzParam("L"))
	val := append(zzRefU32(uint32(n)), zzBytes("content", n)...)
	second := append([]byte{1}, zzRefU32(uint32(zzInt("i32", 0, 1<<30)))...) // a bool then an i32 follow
	enc := append(append([]byte(nil), val...), second...)
	if zzParam("unit") == 0 {
		dr := bufiox.NewDefaultReader(&zzFragSrc{data: enc, maxCalls: zzParam("K")})
		sd := NewSkipDecoder(dr)
		out, err := sd.Next(STRING)
		zzAssert(err == nil, "SkipDecoder failed on a well-formed string")
		if err != nil {
			return
		}
		out2, err := sd.Next(BOOL) // further reading may grow the reader's buffer
		zzAssert(err == nil, "SkipDecoder failed on the following value")
		out3, err := sd.Next(I32)
		zzAssert(err == nil, "SkipDecoder failed on the following value")
		zzHavocFreed()
		zzAssertLive(out, "a skip-decoder result was recycled before Release")
		zzAssertLive(out2, "a skip-decoder result was recycled before Release")
		zzAssertLive(out3, "a skip-decoder result was recycled before Release")
		zzAssertEqBytes(out, val, "first result changed while reading on")
		zzAssertEqBytes(out2, second[:1], "second result differs")
		zzAssertEqBytes(out3, second[1:], "third result differs")
		sd.Release()
		zzAssert(dr.Release(nil) == nil, "Release failed")
	} else {
		rd := NewReaderSkipDecoder(&zzFragSrc{data: enc, maxCalls: zzParam("K")})
		out, err := rd.Next(STRING)
		zzAssert(err == nil, "ReaderSkipDecoder failed on a well-formed string")
		if err != nil {
			return
		}
		zzHavocFreed()
		zzAssertLive(out, "ReaderSkipDecoder result was recycled while still valid")
		zzAssertEqBytes(out, val, "ReaderSkipDecoder result differs from the value")
		out2, err := rd.Next(BOOL)
		zzAssert(err == nil, "ReaderSkipDecoder failed on the following value")
		if err == nil {
			zzAssertEqBytes(out2, second[:1], "second result differs")
		}
		rd.Release()
	}
	zzReach("done")
}
