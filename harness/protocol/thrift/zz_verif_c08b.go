//go:build verif

package thrift

import (
	"github.com/cloudwego/gopkg/bufiox"
)

func init() {
	zzRegister("zzH_C08_negsize", zzH_C08_negsize)
	zzRegister("zzH_C08_reuse", zzH_C08_reuse)
}

// zzH_C08_reuse: a skip decoder that has rejected one input agrees with the grammar on its next
// input (after Reset, or after Release and re-acquisition of the pooled object).
func zzH_C08_reuse() {
	bad := zzBytes("bad", zzInt("nbad", 0, 4))
	t1 := TType(STRUCT) // a struct fails after consuming a symbolic number of bytes
	_, c1 := zzRefSkip(bad, t1, 64)
	zzAssume(c1 != zzOK)
	good := zzBytes("good", zzInt("ngood", 0, 5))
	t2 := zzKnownTypes[zzPick("t2", 0, 10)]
	want, c2 := zzRefSkip(good, t2, 64)
	d := NewBytesSkipDecoder(bad)
	_, err := d.Next(t1)
	zzAssert(err != nil, "BytesSkipDecoder accepts a malformed value")
	if zzBool("viaPool") {
		d.Release()
		d = NewBytesSkipDecoder(good)
	} else {
		d.Reset(good)
	}
	out, err := d.Next(t2)
	if c2 == zzOK {
		zzAssert(err == nil, "a reused BytesSkipDecoder rejects a well-formed value")
		if err == nil {
			zzAssert(len(out) == want, "a reused BytesSkipDecoder reports a different extent")
		}
	} else {
		zzAssert(err != nil, "a reused BytesSkipDecoder accepts a malformed value")
	}
	zzReach("done")
}

// zzH_C08_negsize: a declared size with the top bit set (negative as a Thrift i32) is rejected by
// every skipper even when the buffer is large enough to hold the size read as an unsigned number:
// the buffer length is symbolic up to 2^33 bytes (an object's size is just a term).
func zzH_C08_negsize() {
	n := zzInt("n", 0, 1<<33)
	b := zzBytes("b", n)
	unit := zzParam("unit")
	var t TType
	var sizeAt int
	switch unit % 3 {
	case 0:
		t, sizeAt = STRING, 0
	case 1:
		t, sizeAt = LIST, 1
		zzAssume(n >= 5)
		zzAssume(b[0] == 3) // list<byte>: fast path
	case 2:
		t, sizeAt = MAP, 2
		zzAssume(n >= 6)
		zzAssume(zzAnd(b[0] == 3, b[1] == 3)) // map<byte,byte>: fast path
	}
	zzAssume(n >= sizeAt+4)
	zzAssume(b[sizeAt] >= 0x80) // top bit of the big-endian size word
	var err error
	switch unit / 3 {
	case 0:
		_, err = Binary.Skip(b, t)
	case 1:
		err = NewBufferReader(bufiox.NewBytesReader(b)).Skip(t)
	case 2:
		_, err = NewBytesSkipDecoder(b).Next(t)
	case 3:
		_, err = NewSkipDecoder(bufiox.NewBytesReader(b)).Next(t)
	}
	zzAssert(err != nil, "a negative declared size was accepted")
	zzReach("done")
}
