//go:build verif

package thrift

import (
	"github.com/cloudwego/gopkg/bufiox"
)

func init() {
	zzRegister("zzH_C02_wellformed", zzH_C02_wellformed)
	zzRegister("zzH_C02_depth", zzH_C02_depth)
}

// zzGenTree appends a well-formed value of type t: containers with fixed-size elements get a
// symbolic element count (fast path), others 0..E elements; strings 0..2 bytes unless big.
func zzGenTree(b []byte, t TType, depth int, big bool) []byte {
	switch t {
	case 2, 3:
		return append(b, zzU8("v1"))
	case 6:
		return append(b, zzU8("v2a"), zzU8("v2b"))
	case 8:
		return append(b, zzBytes("v4", 4)...)
	case 4, 10:
		return append(b, zzBytes("v8", 8)...)
	case 11:
		var n int
		if big {
			n = zzInt("biglen", 0, zzParam("L"))
		} else {
			n = zzPick("strlen", 0, 2)
		}
		return append(append(b, zzRefU32(uint32(n))...), zzBytes("strv", n)...)
	case 14, 15:
		var et TType
		if depth > 0 {
			et = zzKnownTypes[zzPick("et", 0, 10)]
		} else if zzBool("etString") {
			et = 11
		} else {
			et = 3
		}
		if k := zzRefFixed(et); k > 0 {
			n := zzInt("fixedCount", 0, 1000)
			b = append(append(b, byte(et)), zzRefU32(uint32(n))...)
			return append(b, zzBytes("fixedElems", n*k)...)
		}
		n := zzPick("count", 0, zzParam("E"))
		b = append(append(b, byte(et)), zzRefU32(uint32(n))...)
		for i := 0; i < n; i++ {
			b = zzGenTree(b, et, depth-1, false)
		}
		return b
	case 13:
		var kt, vt TType
		if depth > 0 {
			kt, vt = zzKnownTypes[zzPick("kt", 0, 10)], zzKnownTypes[zzPick("vt", 0, 10)]
		} else {
			kt, vt = 3, 3
			if zzBool("ktString") {
				kt = 11
			}
		}
		kk, vk := zzRefFixed(kt), zzRefFixed(vt)
		if kk > 0 && vk > 0 {
			n := zzInt("fixedCount", 0, 1000)
			b = append(append(b, byte(kt), byte(vt)), zzRefU32(uint32(n))...)
			return append(b, zzBytes("fixedElems", n*(kk+vk))...)
		}
		n := zzPick("count", 0, zzParam("E"))
		b = append(append(b, byte(kt), byte(vt)), zzRefU32(uint32(n))...)
		for i := 0; i < n; i++ {
			b = zzGenTree(b, kt, depth-1, false)
			b = zzGenTree(b, vt, depth-1, false)
		}
		return b
	case 12:
		maxf := zzParam("F")
		if depth <= 0 {
			maxf = 1
		}
		nf := zzPick("nfields", 0, maxf)
		for i := 0; i < nf; i++ {
			var ft TType
			if depth > 0 && i == 0 {
				ft = zzKnownTypes[zzPick("ft", 0, 10)]
			} else if depth > 0 {
				ft = zzKnownTypes[zzPick("ft", 0, 6)]
			} else if zzBool("ftString") {
				ft = 11
			} else {
				ft = 3
			}
			b = append(b, byte(ft), zzU8("fidhi"), zzU8("fidlo"))
			b = zzGenTree(b, ft, depth-1, false)
		}
		return append(b, 0)
	}
	return b
}

// zzSkipAll runs the skipper selected by impl over enc (value of length want followed by trailing
// bytes) and checks that exactly the value is consumed / returned.
func zzSkipAll(impl int, enc []byte, t TType, want int, expectOK bool) {
	var err error
	var out []byte
	haveOut := false
	switch impl {
	case 0:
		var l int
		l, err = Binary.Skip(enc, t)
		if expectOK {
			zzAssert(zzAnd(err == nil, l == want), "Binary.Skip does not consume exactly the value")
		}
	case 1:
		br := bufiox.NewBytesReader(enc)
		err = NewBufferReader(br).Skip(t)
		if expectOK {
			zzAssert(zzAnd(err == nil, br.ReadLen() == want), "BufferReader.Skip (bytes-backed) does not consume exactly the value")
		}
	case 2:
		src := &zzFragSrc{data: enc, maxCalls: zzParam("K")}
		dr := bufiox.NewDefaultReader(src)
		err = NewBufferReader(dr).Skip(t)
		if expectOK {
			zzAssert(zzAnd(err == nil, dr.ReadLen() == want), "BufferReader.Skip (io.Reader-backed) does not consume exactly the value")
		}
	case 3:
		bd := NewBytesSkipDecoder(enc)
		out, err = bd.Next(t)
		haveOut = true
	case 4:
		br := bufiox.NewBytesReader(enc)
		out, err = NewSkipDecoder(br).Next(t)
		haveOut = true
		if expectOK && err == nil {
			zzAssert(br.ReadLen() == want, "SkipDecoder consumed length differs from the value")
		}
	case 5:
		src := &zzFragSrc{data: enc, maxCalls: zzParam("K")}
		rd := NewReaderSkipDecoder(src)
		out, err = rd.Next(t)
		haveOut = true
		if expectOK && err == nil {
			zzAssert(src.pos == want, "ReaderSkipDecoder pulled bytes beyond the value from the source")
		}
	}
	if expectOK {
		zzAssert(err == nil, "skipper rejects a well-formed value")
		if haveOut && err == nil {
			zzAssert(len(out) == want, "skip decoder returned a different number of bytes")
			if len(out) == want {
				zzAssertEqBytes(out, enc[:want], "skip decoder bytes differ from the value")
			}
		}
	} else {
		zzAssert(err != nil, "nesting beyond the recursion limit was accepted")
	}
}

func zzH_C02_wellformed() {
	unit := zzParam("unit")
	impl := unit / 12
	tcase := unit % 12
	var t TType
	big := false
	if tcase == 11 {
		t, big = 11, true
	} else {
		t = zzKnownTypes[tcase]
	}
	var b []byte
	d := zzParam("D")
	if impl == 2 || impl == 5 {
		d = zzParam("DS") // io.Reader-backed paths: shallower trees, the fragmentation is the subject
	}
	b = zzGenTree(b, t, d, big)
	want := len(b)
	enc := append(b, zzBytes("trailing", zzInt("ntrail", 0, 3))...)
	zzSkipAll(impl, enc, t, want, true)
	zzReach("skipped")
}

var zzDepths = [10]int{1, 2, 3, 31, 62, 63, 65, 66, 67, 70}

// zzH_C02_depth: concrete skeletons nested d deep for each container kind.
func zzH_C02_depth() {
	unit := zzParam("unit")
	impl := unit % 6
	kind := (unit / 6) % 5
	d := zzDepths[unit/30]
	var b []byte
	var t TType
	switch kind {
	case 0, 1: // list / set
		t = 15
		if kind == 1 {
			t = 14
		}
		for i := 0; i < d-1; i++ {
			b = append(b, byte(t), 0, 0, 0, 1)
		}
		b = append(b, 3, 0, 0, 0, 1, zzU8("leaf"))
	case 2: // struct
		t = 12
		for i := 0; i < d-1; i++ {
			b = append(b, 12, zzU8("idhi"), zzU8("idlo"))
		}
		for i := 0; i < d; i++ {
			b = append(b, 0)
		}
	case 3: // map value nesting
		t = 13
		for i := 0; i < d-1; i++ {
			b = append(b, 3, 13, 0, 0, 0, 1, zzU8("key"))
		}
		b = append(b, 3, 3, 0, 0, 0, 0)
	case 4: // map key nesting: map<map<...map<byte,byte>...,byte>,byte>
		t = 13
		for i := 0; i < d-1; i++ {
			b = append(b, 13, 3, 0, 0, 0, 1)
		}
		b = append(b, 3, 3, 0, 0, 0, 0)
		for i := 0; i < d-1; i++ {
			b = append(b, zzU8("val"))
		}
	}
	want := len(b)
	enc := append(b, zzU8("trail"))
	if d <= 63 {
		zzSkipAll(impl, enc, t, want, true)
	} else {
		zzSkipAll(impl, enc, t, want, false)
	}
	zzReach("done")
}
