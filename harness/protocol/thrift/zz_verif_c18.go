//go:build verif

package thrift

import (
	"errors"
	"io"

	"github.com/cloudwego/gopkg/bufiox"
)

func init() {
	zzRegister("zzH_C18_prepend", zzH_C18_prepend)
	zzRegister("zzH_C18_wrap", zzH_C18_wrap)
	zzRegister("zzH_C17_stream", zzH_C17_stream)
	zzRegister("zzH_C16_independent", zzH_C16_independent)
}

// a foreign exception type that only exposes TypeId()
type zzForeign struct {
	id  int32
	msg string
}

func (f *zzForeign) Error() string { return f.msg }
func (f *zzForeign) TypeId() int32 { return f.id }

// zzH_C18_prepend: PrependError keeps kind, type id and text for every error kind.
func zzH_C18_prepend() {
	id := int32(zzU32("typeid"))
	msg := zzString("msg", zzInt("msglen", 0, zzParam("L")))
	prefix := zzString("prefix", zzInt("prefixlen", 0, zzParam("L")))
	var in error
	kind := zzParam("unit")
	switch kind {
	case 0:
		in = NewTransportException(id, msg)
	case 1:
		in = NewProtocolException(id, msg)
	case 2:
		in = NewApplicationException(id, msg)
	case 3:
		in = &zzForeign{id: id, msg: msg}
	case 4:
		in = errors.New(msg)
	case 5: // protocol exception wrapping a cause
		in = NewProtocolExceptionWithErr(errors.New(msg))
	}
	want := prefix + in.Error() // the original error text (a default text when the message is empty)
	if kind == 3 || kind == 4 {
		zzAssertEqStr(in.Error(), msg, "constructor changed the message")
	}
	out := PrependError(prefix, in)
	zzAssert(out != nil, "PrependError returned nil")
	zzAssertEqStr(out.Error(), want, "new error text is not the prefix followed by the original text")
	switch kind {
	case 0:
		e, ok := out.(*TransportException)
		zzAssert(ok, "transport exception changed kind")
		if ok {
			zzAssert(e.TypeId() == id, "transport exception changed type id")
		}
	case 1, 5:
		e, ok := out.(*ProtocolException)
		zzAssert(ok, "protocol exception changed kind")
		if ok {
			if kind == 1 {
				zzAssert(e.TypeId() == id, "protocol exception changed type id")
			} else {
				zzAssert(e.TypeId() == UNKNOWN_PROTOCOL_EXCEPTION, "wrapped protocol exception changed type id")
			}
		}
	case 2, 3:
		e, ok := out.(*ApplicationException)
		zzAssert(ok, "application / foreign exception did not become an application exception")
		if ok {
			zzAssert(e.TypeId() == id, "application exception changed type id")
		}
	case 4:
		_, isT := out.(tException)
		zzAssert(!isT, "a plain error became a thrift exception")
	}
	// default message when the text is empty
	if kind == 2 {
		e := NewApplicationException(id, "")
		zzAssert(len(e.Error()) > 0, "application exception without a message has an empty error text")
	}
	zzReach("done")
}

// zzH_C18_wrap: NewProtocolExceptionWithErr / Is / Unwrap.
func zzH_C18_wrap() {
	id := int32(zzU32("typeid"))
	msg := zzString("msg", zzPick("msglen", 0, 2))
	cause := errors.New("cause")
	other := errors.New("other")
	// identity on protocol exceptions
	pe := NewProtocolException(id, msg)
	zzAssert(NewProtocolExceptionWithErr(pe) == pe, "wrapping a protocol exception is not the identity")
	// wrapping keeps the cause reachable
	w := NewProtocolExceptionWithErr(cause)
	zzAssert(errors.Is(w, cause), "wrapped cause is not matchable with errors.Is")
	zzAssert(errors.Unwrap(w) == cause, "wrapped cause is not reachable with Unwrap")
	zzAssert(!errors.Is(w, other), "an unrelated error matches a wrapping protocol exception")
	zzAssert(errors.Is(NewProtocolExceptionWithErr(io.EOF), io.EOF), "wrapped io.EOF is not matchable")
	// two-level chain
	w2 := NewProtocolExceptionWithErr(&zzWrap{cause})
	zzAssert(errors.Is(w2, cause), "cause two levels down is not matchable")
	// a non-protocol error that merely wraps a protocol exception further down is wrapped, not unpacked
	outer := &zzWrap{NewProtocolException(INVALID_DATA, "inner")}
	w3 := NewProtocolExceptionWithErr(outer)
	zzAssert(errors.Unwrap(w3) == error(outer), "wrapping a foreign error that contains a protocol exception lost the outer error")
	zzAssert(w3.TypeId() == UNKNOWN_PROTOCOL_EXCEPTION, "wrapping a foreign error took over an inner exception's type id")
	// Is: same type id and same text
	id2 := int32(zzU32("typeid2"))
	msg2 := zzString("msg2", zzPick("msglen2", 0, 2))
	var target error
	switch zzPick("targetKind", 0, 3) {
	case 0:
		target = NewProtocolException(id2, msg2)
	case 1:
		target = NewApplicationException(id2, msg2)
	case 2:
		target = &zzForeign{id: id2, msg: msg2}
	case 3:
		target = NewTransportException(id2, msg2)
	}
	got := pe.Is(target)
	// the target's Error() substitutes a default text when its message is empty
	same := zzAnd(id == id2, zzEqStr(target.Error(), msg))
	zzAssert(got == same, "ProtocolException.Is does not decide by type id and error text")
	zzAssert(!pe.Is(other), "ProtocolException.Is matches a plain error without a cause")
	wc := NewProtocolExceptionWithErr(cause)
	zzAssert(wc.Is(cause), "ProtocolException.Is does not match its wrapped cause")
	zzReach("done")
}

type zzWrap struct{ inner error }

func (w *zzWrap) Error() string { return "wrap" }
func (w *zzWrap) Unwrap() error { return w.inner }

// zzErrSrc fails with a chosen error after delivering `good` bytes.
type zzErrSrc struct {
	data []byte
	pos  int
	err  error
}

func (s *zzErrSrc) Read(p []byte) (int, error) {
	if s.pos >= len(s.data) {
		return 0, s.err
	}
	n := copy(p, s.data[s.pos:])
	s.pos += n
	return n, nil
}

var zzCustomErr = errors.New("zz custom source error")

// zzH_C17_stream: failures of the stream reader caused by the source wrap the source's error.
func zzH_C17_stream() {
	unit := zzParam("unit")
	maxn := 12
	if unit >= 12 {
		maxn = 8
	}
	n := zzInt("n", 0, maxn)
	data := zzBytes("data", n)
	var srcErr error = io.EOF
	switch zzPick("srcErrKind", 0, 2) {
	case 1:
		srcErr = zzCustomErr
	case 2:
		srcErr = &zzWrap{NewProtocolException(INVALID_DATA, "inner")} // a foreign error that wraps a protocol exception
	}
	r := NewBufferReader(bufiox.NewDefaultReader(&zzErrSrc{data: data, err: srcErr}))
	var err error
	if unit >= 12 {
		err = r.Skip(zzKnownTypes[unit-12])
	}
	switch unit {
	case 0:
		_, err = r.ReadBool()
		zzAssume(n < 1)
	case 1:
		_, err = r.ReadI16()
		zzAssume(n < 2)
	case 2:
		_, err = r.ReadI32()
		zzAssume(n < 4)
	case 3:
		_, err = r.ReadI64()
		zzAssume(n < 8)
	case 4:
		_, err = r.ReadDouble()
		zzAssume(n < 8)
	case 5:
		_, err = r.ReadString()
	case 6:
		_, err = r.ReadBinary()
	case 7:
		_, _, err = r.ReadFieldBegin()
	case 8:
		_, _, _, err = r.ReadMapBegin()
		zzAssume(n < 6)
	case 9:
		_, _, err = r.ReadListBegin()
		zzAssume(n < 5)
	case 10:
		_, _, _, err = r.ReadMessageBegin()
	case 11:
		_, err = r.ReadByte()
		zzAssume(n < 1)
	}
	sourceCaused := unit <= 4 || unit == 8 || unit == 9 || unit == 11 // fixed-size readers over too few bytes
	if sourceCaused {
		zzAssert(err != nil, "reader succeeded although the source ran dry")
		if err != nil {
			zzAssert(errors.Is(err, srcErr), "failure caused by the source does not match the source's error")
		}
	}
	if err == nil {
		return
	}
	zzReach("failed")
	pe, ok := err.(*ProtocolException)
	zzAssert(ok, "stream reader failure is not a protocol exception")
	if !ok {
		return
	}
	tid := pe.TypeId()
	if tid == UNKNOWN_PROTOCOL_EXCEPTION {
		// caused by the underlying reader: its error stays matchable
		zzAssert(errors.Is(err, srcErr), "source error is not matchable with errors.Is")
		zzReach("wrapped")
	} else {
		zzAssert(zzOr(tid == INVALID_DATA, zzOr(tid == NEGATIVE_SIZE, zzOr(tid == BAD_VERSION, tid == DEPTH_LIMIT))), "unexpected protocol exception type id")
	}
}

// zzH_C16_independent: decoded strings/binaries are independent copies.
func zzH_C16_independent() {
	var n1, n2 int
	if zzParam("unit")%2 == 1 {
		// span cache on: one representative length per size class (0, <128, 128.., larger)
		n1 = [7]int{0, 1, 127, 128, 129, 3000, 140000}[zzPick("n1class", 0, zzParam("NC"))]
		n2 = [3]int{0, 7, 300}[zzPick("n2class", 0, 2)]
	} else {
		n1 = zzInt("n1", 0, zzParam("L"))
		n2 = zzInt("n2", 0, 300)
	}
	c1 := zzBytes("c1", n1)
	c2 := zzBytes("c2", n2)
	enc := append(append(append(zzRefU32(uint32(n1)), c1...), zzRefU32(uint32(n2))...), c2...)
	SetSpanCache(zzParam("unit")%2 == 1)
	useStream := zzParam("unit")/2 == 1
	var v1, v2 []byte
	if useStream {
		r := NewBufferReader(bufiox.NewBytesReader(enc))
		var err error
		v1, err = r.ReadBinary()
		zzAssert(err == nil, "ReadBinary failed")
		v2, err = r.ReadBinary()
		zzAssert(err == nil, "ReadBinary failed")
	} else {
		var l int
		var err error
		v1, l, err = Binary.ReadBinary(enc)
		zzAssert(err == nil, "ReadBinary failed")
		v2, _, err = Binary.ReadBinary(enc[l:])
		zzAssert(err == nil, "ReadBinary failed")
	}
	SetSpanCache(false)
	zzAssertEqBytes(v1, c1, "first decoded value differs from the input")
	zzAssertEqBytes(v2, c2, "second decoded value differs from the input")
	if len(v1) > 0 {
		zzAssert(zzDisjoint(v1, enc), "decoded value shares memory with the input buffer")
	}
	if len(v2) > 0 {
		zzAssert(zzDisjoint(v2, enc), "decoded value shares memory with the input buffer")
	}
	if len(v1) > 0 && len(v2) > 0 {
		zzAssert(zzDisjoint(v1, v2), "two decoded values share memory")
	}
	// overwrite the whole input: the values must not change
	copy(enc, zzBytes("scribble", len(enc)))
	zzAssertEqBytes(v1, c1, "first value changed when the input buffer was reused")
	zzAssertEqBytes(v2, c2, "second value changed when the input buffer was reused")
	// overwrite and extend the first value: the second must not change
	encSnap := append([]byte(nil), enc...)
	copy(v1, zzBytes("scribble1", len(v1)))
	v1 = append(v1, zzBytes("extra", zzInt("nextra", 1, 64))...)
	zzAssertEqBytes(v2, c2, "second value changed when the first was modified or appended to")
	zzAssertEqBytes(enc, encSnap, "modifying or appending to a returned value altered the input buffer")
	_ = v1
	zzReach("done")
}
