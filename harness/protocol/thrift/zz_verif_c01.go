//go:build verif

package thrift

import (
	"math"

	"github.com/cloudwego/gopkg/bufiox"
)

func init() {
	zzRegister("zzH_C01_codec", zzH_C01_codec)
	zzRegister("zzH_C01_string", zzH_C01_string)
}

// reference big-endian packers (shift and mask, independent of encoding/binary)
func zzRefU16(v uint16) []byte { return []byte{byte(v >> 8), byte(v)} }
func zzRefU32(v uint32) []byte {
	return []byte{byte(v >> 24), byte(v >> 16), byte(v >> 8), byte(v)}
}
func zzRefU64(v uint64) []byte {
	return []byte{byte(v >> 56), byte(v >> 48), byte(v >> 40), byte(v >> 32), byte(v >> 24), byte(v >> 16), byte(v >> 8), byte(v)}
}

// zzFragSrc delivers data in fragments chosen by the solver: every Read returns between 0 and
// min(len(p), remaining) bytes; when the data is exhausted it may deliver the last bytes together
// with io.EOF or report io.EOF on the next call. The first maxCalls calls fragment symbolically,
// later calls deliver as much as fits.
type zzFragSrc struct {
	data     []byte
	pos      int
	calls    int
	maxCalls int
	eofSent  bool
}

func (s *zzFragSrc) Read(p []byte) (int, error) {
	s.calls++
	rem := len(s.data) - s.pos
	if rem == 0 {
		s.eofSent = true
		return 0, zzEOF
	}
	lim := rem
	if len(p) < lim {
		lim = len(p)
	}
	if s.calls > s.maxCalls {
		// beyond the explored fragmentation budget the source delivers as much as it can
		copy(p, s.data[s.pos:s.pos+lim])
		s.pos += lim
		return lim, nil
	}
	m := zzInt("m", 0, lim)
	copy(p, s.data[s.pos:s.pos+m])
	s.pos += m
	if s.pos == len(s.data) && zzBool("eofWithData") {
		s.eofSent = true
		return m, zzEOF
	}
	return m, nil
}

// zzAppendTarget returns a slice with a symbolic prefix and symbolic spare capacity so that both
// the in-place and the reallocating path of append are explored.
func zzAppendTarget() []byte {
	pl := zzInt("prefixLen", 0, 2)
	spare := zzInt("spare", 0, 16)
	buf := zzBytesCap("prefix", pl, pl+spare)
	return buf
}

// check that the three writers produce want, and that both readers return the value
func zzCheckWriters(kind string, want []byte, inplace []byte, n int, prefix, appended []byte, streamed []byte, advertised int) {
	zzAssert(n == len(want), "in-place writer returned length differs from the encoding length")
	zzAssert(advertised == len(want), "advertised length differs from the encoding length")
	zzAssertEqBytes(inplace[:len(want)], want, "in-place writer bytes differ from the wire format")
	zzAssert(len(appended) == len(prefix)+len(want), "appending writer length differs")
	if len(appended) == len(prefix)+len(want) {
		zzAssertEqBytes(appended[:len(prefix)], prefix, "appending writer changed the prefix")
		zzAssertEqBytes(appended[len(prefix):], want, "appending writer bytes differ from the wire format")
	}
	zzAssertEqBytes(streamed, want, "stream writer bytes differ from the wire format")
}

func zzStreamWriter() (*BufferWriter, *bufiox.BytesWriter, *[]byte) {
	out := new([]byte)
	bw := bufiox.NewBytesWriter(out)
	return NewBufferWriter(bw), bw, out
}

func zzStreamReader(enc []byte, mode int) (*BufferReader, bufiox.Reader) {
	if mode == 0 {
		br := bufiox.NewBytesReader(enc)
		return NewBufferReader(br), br
	}
	dr := bufiox.NewDefaultReader(&zzFragSrc{data: enc, maxCalls: zzParam("K")})
	return NewBufferReader(dr), dr
}

func zzH_C01_codec() {
	kind := zzParam("kind")
	mode := zzPick("readerMode", zzParam("mode0"), zzParam("modes"))
	trail := zzBytes("trailing", zzInt("ntrail", 0, 3))
	prefix := zzAppendTarget()
	prefixCopy := append([]byte(nil), prefix...)
	w, bw, out := zzStreamWriter()
	switch kind {
	case 0: // bool
		v := zzBool("v")
		want := []byte{0}
		if v {
			want[0] = 1
		}
		buf := zzBytes("dst", 1)
		n := Binary.WriteBool(buf, v)
		app := Binary.AppendBool(prefix, v)
		zzAssert(w.WriteBool(v) == nil, "stream writer failed")
		zzAssert(bw.Flush() == nil, "flush failed")
		zzCheckWriters("bool", want, buf, n, prefixCopy, app, *out, Binary.BoolLength())
		enc := append(append([]byte(nil), want...), trail...)
		got, l, err := Binary.ReadBool(enc)
		zzAssert(zzAnd(err == nil, zzAnd(got == v, l == 1)), "ReadBool does not return the written value")
		r, rd := zzStreamReader(enc, mode)
		got, err = r.ReadBool()
		zzAssert(zzAnd(err == nil, zzAnd(got == v, rd.ReadLen() == 1)), "stream ReadBool does not return the written value")
		// decode direction: any byte other than 1 is false
		x := zzU8("rawbool")
		g2, _, _ := Binary.ReadBool([]byte{x})
		zzAssert(g2 == (x == 1), "ReadBool decodes a byte other than 1 as true")
	case 1: // byte
		v := int8(zzU8("v"))
		want := []byte{byte(v)}
		buf := zzBytes("dst", 1)
		n := Binary.WriteByte(buf, v)
		app := Binary.AppendByte(prefix, v)
		zzAssert(w.WriteByte(v) == nil, "stream writer failed")
		zzAssert(bw.Flush() == nil, "flush failed")
		zzCheckWriters("byte", want, buf, n, prefixCopy, app, *out, Binary.ByteLength())
		enc := append(append([]byte(nil), want...), trail...)
		got, l, err := Binary.ReadByte(enc)
		zzAssert(zzAnd(err == nil, zzAnd(got == v, l == 1)), "ReadByte does not return the written value")
		r, rd := zzStreamReader(enc, mode)
		got, err = r.ReadByte()
		zzAssert(zzAnd(err == nil, zzAnd(got == v, rd.ReadLen() == 1)), "stream ReadByte does not return the written value")
	case 2: // i16
		v := int16(zzU16("v"))
		want := zzRefU16(uint16(v))
		buf := zzBytes("dst", 2)
		n := Binary.WriteI16(buf, v)
		app := Binary.AppendI16(prefix, v)
		zzAssert(w.WriteI16(v) == nil, "stream writer failed")
		zzAssert(bw.Flush() == nil, "flush failed")
		zzCheckWriters("i16", want, buf, n, prefixCopy, app, *out, Binary.I16Length())
		enc := append(append([]byte(nil), want...), trail...)
		got, l, err := Binary.ReadI16(enc)
		zzAssert(zzAnd(err == nil, zzAnd(got == v, l == 2)), "ReadI16 does not return the written value")
		r, rd := zzStreamReader(enc, mode)
		got, err = r.ReadI16()
		zzAssert(zzAnd(err == nil, zzAnd(got == v, rd.ReadLen() == 2)), "stream ReadI16 does not return the written value")
	case 3: // i32
		v := int32(zzU32("v"))
		want := zzRefU32(uint32(v))
		buf := zzBytes("dst", 4)
		n := Binary.WriteI32(buf, v)
		app := Binary.AppendI32(prefix, v)
		zzAssert(w.WriteI32(v) == nil, "stream writer failed")
		zzAssert(bw.Flush() == nil, "flush failed")
		zzCheckWriters("i32", want, buf, n, prefixCopy, app, *out, Binary.I32Length())
		enc := append(append([]byte(nil), want...), trail...)
		got, l, err := Binary.ReadI32(enc)
		zzAssert(zzAnd(err == nil, zzAnd(got == v, l == 4)), "ReadI32 does not return the written value")
		r, rd := zzStreamReader(enc, mode)
		got, err = r.ReadI32()
		zzAssert(zzAnd(err == nil, zzAnd(got == v, rd.ReadLen() == 4)), "stream ReadI32 does not return the written value")
	case 4: // i64
		v := int64(zzU64("v"))
		want := zzRefU64(uint64(v))
		buf := zzBytes("dst", 8)
		n := Binary.WriteI64(buf, v)
		app := Binary.AppendI64(prefix, v)
		zzAssert(w.WriteI64(v) == nil, "stream writer failed")
		zzAssert(bw.Flush() == nil, "flush failed")
		zzCheckWriters("i64", want, buf, n, prefixCopy, app, *out, Binary.I64Length())
		enc := append(append([]byte(nil), want...), trail...)
		got, l, err := Binary.ReadI64(enc)
		zzAssert(zzAnd(err == nil, zzAnd(got == v, l == 8)), "ReadI64 does not return the written value")
		r, rd := zzStreamReader(enc, mode)
		got, err = r.ReadI64()
		zzAssert(zzAnd(err == nil, zzAnd(got == v, rd.ReadLen() == 8)), "stream ReadI64 does not return the written value")
	case 5: // double: every bit pattern including NaN payloads
		bits := zzU64("v")
		v := math.Float64frombits(bits)
		want := zzRefU64(bits)
		buf := zzBytes("dst", 8)
		n := Binary.WriteDouble(buf, v)
		app := Binary.AppendDouble(prefix, v)
		zzAssert(w.WriteDouble(v) == nil, "stream writer failed")
		zzAssert(bw.Flush() == nil, "flush failed")
		zzCheckWriters("double", want, buf, n, prefixCopy, app, *out, Binary.DoubleLength())
		enc := append(append([]byte(nil), want...), trail...)
		got, l, err := Binary.ReadDouble(enc)
		zzAssert(zzAnd(err == nil, zzAnd(math.Float64bits(got) == bits, l == 8)), "ReadDouble does not return the written bit pattern")
		r, rd := zzStreamReader(enc, mode)
		got, err = r.ReadDouble()
		zzAssert(zzAnd(err == nil, zzAnd(math.Float64bits(got) == bits, rd.ReadLen() == 8)), "stream ReadDouble does not return the written bit pattern")
	case 6: // field begin (type byte other than STOP) and field stop
		t := TType(zzU8("t"))
		id := int16(zzU16("id"))
		zzAssume(t != STOP)
		want := append([]byte{byte(t)}, zzRefU16(uint16(id))...)
		buf := zzBytes("dst", 3)
		n := Binary.WriteFieldBegin(buf, t, id)
		app := Binary.AppendFieldBegin(prefix, t, id)
		zzAssert(w.WriteFieldBegin(t, id) == nil, "stream writer failed")
		zzAssert(bw.Flush() == nil, "flush failed")
		zzCheckWriters("field", want, buf, n, prefixCopy, app, *out, Binary.FieldBeginLength())
		enc := append(append([]byte(nil), want...), trail...)
		gt, gid, l, err := Binary.ReadFieldBegin(enc)
		zzAssert(zzAnd(err == nil, zzAnd(gt == t, zzAnd(gid == id, l == 3))), "ReadFieldBegin does not return the written header")
		r, rd := zzStreamReader(enc, mode)
		gt, gid, err = r.ReadFieldBegin()
		zzAssert(zzAnd(err == nil, zzAnd(gt == t, zzAnd(gid == id, rd.ReadLen() == 3))), "stream ReadFieldBegin does not return the written header")
	case 7: // field stop
		buf := zzBytes("dst", 1)
		n := Binary.WriteFieldStop(buf)
		app := Binary.AppendFieldStop(prefix)
		zzAssert(w.WriteFieldStop() == nil, "stream writer failed")
		zzAssert(bw.Flush() == nil, "flush failed")
		zzCheckWriters("stop", []byte{0}, buf, n, prefixCopy, app, *out, Binary.FieldStopLength())
		enc := append([]byte{0}, trail...)
		gt, gid, l, err := Binary.ReadFieldBegin(enc)
		zzAssert(zzAnd(err == nil, zzAnd(gt == STOP, zzAnd(gid == 0, l == 1))), "field stop does not read back as (STOP, 0, 1)")
		r, rd := zzStreamReader(enc, mode)
		gt, gid, err = r.ReadFieldBegin()
		zzAssert(zzAnd(err == nil, zzAnd(gt == STOP, zzAnd(gid == 0, rd.ReadLen() == 1))), "stream field stop does not read back as (STOP, 0)")
	case 8: // map begin
		kt, vt := TType(zzU8("kt")), TType(zzU8("vt"))
		size := zzInt("size", 0, math.MaxInt32)
		want := append([]byte{byte(kt), byte(vt)}, zzRefU32(uint32(size))...)
		buf := zzBytes("dst", 6)
		n := Binary.WriteMapBegin(buf, kt, vt, size)
		app := Binary.AppendMapBegin(prefix, kt, vt, size)
		zzAssert(w.WriteMapBegin(kt, vt, size) == nil, "stream writer failed")
		zzAssert(bw.Flush() == nil, "flush failed")
		zzCheckWriters("map", want, buf, n, prefixCopy, app, *out, Binary.MapBeginLength())
		enc := append(append([]byte(nil), want...), trail...)
		gk, gv, gs, l, err := Binary.ReadMapBegin(enc)
		zzAssert(zzAnd(err == nil, zzAnd(gk == kt, zzAnd(gv == vt, zzAnd(gs == size, l == 6)))), "ReadMapBegin does not return the written header")
		r, rd := zzStreamReader(enc, mode)
		gk, gv, gs, err = r.ReadMapBegin()
		zzAssert(zzAnd(err == nil, zzAnd(gk == kt, zzAnd(gv == vt, zzAnd(gs == size, rd.ReadLen() == 6)))), "stream ReadMapBegin does not return the written header")
	case 9, 10: // list / set begin
		et := TType(zzU8("et"))
		size := zzInt("size", 0, math.MaxInt32)
		want := append([]byte{byte(et)}, zzRefU32(uint32(size))...)
		buf := zzBytes("dst", 5)
		var n int
		var app []byte
		var adv int
		if kind == 9 {
			n = Binary.WriteListBegin(buf, et, size)
			app = Binary.AppendListBegin(prefix, et, size)
			zzAssert(w.WriteListBegin(et, size) == nil, "stream writer failed")
			adv = Binary.ListBeginLength()
		} else {
			n = Binary.WriteSetBegin(buf, et, size)
			app = Binary.AppendSetBegin(prefix, et, size)
			zzAssert(w.WriteSetBegin(et, size) == nil, "stream writer failed")
			adv = Binary.SetBeginLength()
		}
		zzAssert(bw.Flush() == nil, "flush failed")
		zzCheckWriters("list", want, buf, n, prefixCopy, app, *out, adv)
		enc := append(append([]byte(nil), want...), trail...)
		r, rd := zzStreamReader(enc, mode)
		if kind == 9 {
			ge, gs, l, err := Binary.ReadListBegin(enc)
			zzAssert(zzAnd(err == nil, zzAnd(ge == et, zzAnd(gs == size, l == 5))), "ReadListBegin does not return the written header")
			ge, gs, err = r.ReadListBegin()
			zzAssert(zzAnd(err == nil, zzAnd(ge == et, zzAnd(gs == size, rd.ReadLen() == 5))), "stream ReadListBegin does not return the written header")
		} else {
			ge, gs, l, err := Binary.ReadSetBegin(enc)
			zzAssert(zzAnd(err == nil, zzAnd(ge == et, zzAnd(gs == size, l == 5))), "ReadSetBegin does not return the written header")
			ge, gs, err = r.ReadSetBegin()
			zzAssert(zzAnd(err == nil, zzAnd(ge == et, zzAnd(gs == size, rd.ReadLen() == 5))), "stream ReadSetBegin does not return the written header")
		}
	}
}

// zzH_C01_string: strings and binaries of symbolic length (content is an uninterpreted array, so a
// 64 KiB value costs as much as a 3-byte one).
func zzH_C01_string() {
	n := zzInt("len", 0, zzParam("L"))
	content := zzBytes("content", n)
	asString := zzParam("kind") == 0
	mode := zzPick("readerMode", zzParam("mode0"), zzParam("modes"))
	trail := zzBytes("trailing", zzInt("ntrail", 0, 3))
	prefix := zzAppendTarget()
	prefixCopy := append([]byte(nil), prefix...)
	w, bw, out := zzStreamWriter()
	s := string(content)
	want := append(zzRefU32(uint32(n)), content...)
	buf := zzBytes("dst", 4+n)
	var wn, adv int
	var app []byte
	if asString {
		wn = Binary.WriteString(buf, s)
		app = Binary.AppendString(prefix, s)
		zzAssert(w.WriteString(s) == nil, "stream writer failed")
		adv = Binary.StringLength(s)
	} else {
		wn = Binary.WriteBinary(buf, content)
		app = Binary.AppendBinary(prefix, content)
		zzAssert(w.WriteBinary(content) == nil, "stream writer failed")
		adv = Binary.BinaryLength(content)
	}
	zzAssert(bw.Flush() == nil, "flush failed")
	zzCheckWriters("string", want, buf, wn, prefixCopy, app, *out, adv)
	enc := append(append([]byte(nil), want...), trail...)
	r, rd := zzStreamReader(enc, mode)
	if asString {
		got, l, err := Binary.ReadString(enc)
		zzAssert(zzAnd(err == nil, l == 4+n), "ReadString consumed length differs")
		zzAssertEqStrBytes(got, content, "ReadString does not return the written value")
		got, err = r.ReadString()
		zzAssert(zzAnd(err == nil, rd.ReadLen() == 4+n), "stream ReadString consumed length differs")
		zzAssertEqStrBytes(got, content, "stream ReadString does not return the written value")
	} else {
		got, l, err := Binary.ReadBinary(enc)
		zzAssert(zzAnd(err == nil, l == 4+n), "ReadBinary consumed length differs")
		zzAssertEqBytes(got, content, "ReadBinary does not return the written value")
		got, err = r.ReadBinary()
		zzAssert(zzAnd(err == nil, rd.ReadLen() == 4+n), "stream ReadBinary consumed length differs")
		zzAssertEqBytes(got, content, "stream ReadBinary does not return the written value")
	}
}
