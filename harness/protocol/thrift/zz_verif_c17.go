//go:build verif

package thrift

func init() {
	zzRegister("zzH_C17_readers", zzH_C17_readers)
}

func zzCheckPE(err error, wantID int32, alt int32, what string) {
	pe, ok := err.(*ProtocolException)
	zzAssert(ok, what+": failure is not a protocol exception")
	if ok {
		zzAssert(zzOr(pe.TypeId() == wantID, pe.TypeId() == alt), what+": exception type id does not name the cause")
	}
}

// zzH_C17_readers: every failure of a thrift.Binary reader is a protocol exception whose type id
// names the cause determined independently from the bytes.
func zzH_C17_readers() {
	n := zzInt("n", 0, zzParam("N"))
	b := zzBytes("b", n)
	need := [6]int{1, 1, 2, 4, 8, 8}
	which := zzParam("unit")
	var err error
	switch which {
	case 0:
		_, _, err = Binary.ReadBool(b)
	case 1:
		_, _, err = Binary.ReadByte(b)
	case 2:
		_, _, err = Binary.ReadI16(b)
	case 3:
		_, _, err = Binary.ReadI32(b)
	case 4:
		_, _, err = Binary.ReadI64(b)
	case 5:
		_, _, err = Binary.ReadDouble(b)
	case 6:
		_, _, err = Binary.ReadString(b)
	case 7:
		_, _, err = Binary.ReadBinary(b)
	case 8:
		_, _, _, err = Binary.ReadFieldBegin(b)
	case 9:
		_, _, _, _, err = Binary.ReadMapBegin(b)
	case 10:
		_, _, _, err = Binary.ReadListBegin(b)
	case 11:
		_, _, _, err = Binary.ReadSetBegin(b)
	case 12:
		_, _, _, _, err = Binary.ReadMessageBegin(b)
	}
	switch {
	case which < 6:
		zzAssert((err != nil) == (n < need[which]), "scalar reader fails exactly on short input")
		if err != nil {
			zzCheckPE(err, INVALID_DATA, INVALID_DATA, "scalar reader")
		}
	case which == 6 || which == 7:
		if n < 4 {
			zzAssert(err != nil, "string reader accepts fewer than 4 bytes")
			if err != nil {
				zzCheckPE(err, INVALID_DATA, INVALID_DATA, "string reader (short)")
			}
		} else {
			sz := zzBE32(b)
			if sz < 0 {
				zzAssert(err != nil, "string reader accepts a negative size")
				if err != nil {
					zzCheckPE(err, NEGATIVE_SIZE, NEGATIVE_SIZE, "string reader (negative size)")
				}
			} else if n-4 < int(sz) {
				zzAssert(err != nil, "string reader accepts a truncated value")
				if err != nil {
					zzCheckPE(err, INVALID_DATA, INVALID_DATA, "string reader (truncated)")
				}
			} else {
				zzAssert(err == nil, "string reader rejects a complete value")
			}
		}
	case which == 8:
		short := zzOr(n < 1, zzAnd(n >= 1 && b[0] != 0, n < 3))
		zzAssert((err != nil) == short, "field header reader fails exactly on short input")
		if err != nil {
			zzCheckPE(err, INVALID_DATA, INVALID_DATA, "field header reader")
		}
	case which == 9:
		zzAssert((err != nil) == (n < 6), "map header reader fails exactly on short input")
		if err != nil {
			zzCheckPE(err, INVALID_DATA, INVALID_DATA, "map header reader")
		}
	case which == 10 || which == 11:
		zzAssert((err != nil) == (n < 5), "list/set header reader fails exactly on short input")
		if err != nil {
			zzCheckPE(err, INVALID_DATA, INVALID_DATA, "list/set header reader")
		}
	case which == 12:
		if err != nil {
			if n >= 4 && uint32(zzBE32(b))&0xffff0000 != 0x80010000 {
				zzCheckPE(err, BAD_VERSION, BAD_VERSION, "message begin (version)")
			} else {
				// the function folds name/seq failures into its own buf-too-small value
				zzCheckPE(err, INVALID_DATA, NEGATIVE_SIZE, "message begin")
			}
		}
	}
	zzReach("done")
}
