//go:build verif

package thrift

import (
	"github.com/cloudwego/gopkg/bufiox"
)

func init() {
	zzRegister("zzH_C14_cycles", zzH_C14_cycles)
	zzRegister("zzH_C14_interleave", zzH_C14_interleave)
}

type zzPayload struct {
	v   int64
	s   []byte
	enc []byte
}

func zzNewPayload() *zzPayload {
	p := &zzPayload{v: int64(zzU64("v")), s: zzBytes("s", zzPick("slen", 0, 2))}
	p.enc = append(append(zzRefU64(uint64(p.v)), zzRefU32(uint32(len(p.s)))...), p.s...)
	return p
}

// zzCycle runs one create/use/release cycle of the pooled type selected by kind on its own payload
// and checks the instance sees exactly its own data.
func zzCycle(kind int, p *zzPayload) {
	switch kind {
	case 0:
		// the instance's input lives in caller memory with a power-of-two capacity
		in := make([]byte, len(p.enc), 16)
		copy(in, p.enc)
		zzMarkCaller(in, "input of a bytes-backed reader")
		br := bufiox.NewBytesReader(in)
		r := NewBufferReader(br)
		defer func() {
			_, _ = r.ReadI64() // over-read at the end of the input, then release
			_ = br.Release(nil)
			zzAssertLive(in, "an instance's input was recycled into the shared pool")
		}()
		v, err := r.ReadI64()
		zzAssert(zzAnd(err == nil, v == p.v), "BufferReader saw another instance's data")
		s, err := r.ReadBinary()
		zzAssert(err == nil, "BufferReader failed")
		zzAssertEqBytes(s, p.s, "BufferReader saw another instance's data")
	case 1:
		var out []byte
		bw := bufiox.NewBytesWriter(&out)
		w := NewBufferWriter(bw)
		zzAssert(w.WriteI64(p.v) == nil, "BufferWriter failed")
		zzAssert(w.WriteBinary(p.s) == nil, "BufferWriter failed")
		zzAssert(bw.Flush() == nil, "flush failed")
		zzAssertEqBytes(out, p.enc, "BufferWriter output contains another instance's data")
		w.Recycle()
	case 2:
		br := bufiox.NewBytesReader(p.enc)
		d := NewSkipDecoder(br)
		b, err := d.Next(I64)
		zzAssert(err == nil, "SkipDecoder failed")
		zzAssertEqBytes(b, p.enc[:8], "SkipDecoder saw another instance's data")
		b, err = d.Next(STRING)
		zzAssert(err == nil, "SkipDecoder failed")
		zzAssertEqBytes(b, p.enc[8:], "SkipDecoder saw another instance's data")
		d.Release()
	case 3:
		d := NewBytesSkipDecoder(p.enc)
		b, err := d.Next(I64)
		zzAssert(err == nil, "BytesSkipDecoder failed")
		zzAssertEqBytes(b, p.enc[:8], "BytesSkipDecoder saw another instance's data")
		b, err = d.Next(STRING)
		zzAssert(err == nil, "BytesSkipDecoder failed")
		zzAssertEqBytes(b, p.enc[8:], "BytesSkipDecoder saw another instance's data")
		d.Release()
	case 4:
		d := NewReaderSkipDecoder(&zzChunkSrc{data: p.enc, chunk: 5})
		b, err := d.Next(I64)
		zzAssert(err == nil, "ReaderSkipDecoder failed")
		zzAssertEqBytes(b, p.enc[:8], "ReaderSkipDecoder saw another instance's data")
		b, err = d.Next(STRING)
		zzAssert(err == nil, "ReaderSkipDecoder failed")
		zzAssertEqBytes(b, p.enc[8:], "ReaderSkipDecoder saw another instance's data")
		d.Release()
	case 6:
		// a value larger than 64 KiB through the pooled io.Reader skip decoder
		big := append(zzRefU32(70000), zzBytes("big", 70000)...)
		d := NewReaderSkipDecoder(&zzChunkSrc{data: big, chunk: 1 << 20})
		b, err := d.Next(STRING)
		zzAssert(err == nil, "ReaderSkipDecoder failed on a large value")
		zzAssertEqBytes(b, big, "ReaderSkipDecoder saw another instance's data")
		d.Release()
		zzHavocFreed()
		d2 := NewReaderSkipDecoder(&zzChunkSrc{data: p.enc, chunk: 5})
		b, err = d2.Next(I64)
		zzAssert(err == nil, "ReaderSkipDecoder failed")
		zzAssertEqBytes(b, p.enc[:8], "a reused ReaderSkipDecoder saw another instance's data")
		d2.Release()
	case 5:
		v, l, err := Binary.ReadI64(p.enc)
		zzAssert(zzAnd(err == nil, v == p.v), "Binary reader saw other data")
		s, _, err := Binary.ReadBinary(p.enc[l:])
		zzAssert(err == nil, "Binary.ReadBinary failed")
		zzAssertEqBytes(s, p.s, "Binary.ReadBinary saw other data")
		n, err := Binary.Skip(p.enc[8:], STRING)
		zzAssert(zzAnd(err == nil, n == 4+len(p.s)), "Binary.Skip failed")
	}
}

// zzH_C14_cycles: with everything that exists before the instances frozen (package-level state is
// shared between goroutines), two consecutive cycles - the second one obtaining the pooled objects
// the first one released - each see only their own payload and never store to shared memory.
func zzH_C14_cycles() {
	kind := zzParam("unit")
	zzFreeze()
	a, b := zzNewPayload(), zzNewPayload()
	zzCycle(kind, a)
	zzCycle(kind, b)
	zzCycle(kind, a)
	zzReach("done")
}

// zzH_C14_interleave: two live instances with their operations interleaved in every order.
func zzH_C14_interleave() {
	zzFreeze()
	a, b := zzNewPayload(), zzNewPayload()
	ra := NewBufferReader(bufiox.NewBytesReader(a.enc))
	rb := NewBufferReader(bufiox.NewBytesReader(b.enc))
	da := NewBytesSkipDecoder(a.enc)
	db := NewBytesSkipDecoder(b.enc)
	sched := [6][4]int{{0, 0, 1, 1}, {0, 1, 0, 1}, {0, 1, 1, 0}, {1, 0, 0, 1}, {1, 0, 1, 0}, {1, 1, 0, 0}}[zzPick("schedule", 0, 5)]
	step := [2]int{}
	for _, who := range sched {
		p, r, d := a, ra, da
		if who == 1 {
			p, r, d = b, rb, db
		}
		if step[who] == 0 {
			v, err := r.ReadI64()
			zzAssert(zzAnd(err == nil, v == p.v), "interleaved BufferReader saw the other instance's data")
			x, err := d.Next(I64)
			zzAssert(err == nil, "interleaved skip decoder failed")
			zzAssertEqBytes(x, p.enc[:8], "interleaved skip decoder saw the other instance's data")
		} else {
			s, err := r.ReadBinary()
			zzAssert(err == nil, "interleaved BufferReader failed")
			zzAssertEqBytes(s, p.s, "interleaved BufferReader saw the other instance's data")
			x, err := d.Next(STRING)
			zzAssert(err == nil, "interleaved skip decoder failed")
			zzAssertEqBytes(x, p.enc[8:], "interleaved skip decoder saw the other instance's data")
		}
		step[who]++
	}
	ra.Recycle()
	rb.Recycle()
	da.Release()
	db.Release()
	zzReach("done")
}
