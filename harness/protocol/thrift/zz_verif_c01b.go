//go:build verif

package thrift

import (
	"github.com/cloudwego/gopkg/bufiox"
)

func init() {
	zzRegister("zzH_C01_manywrites", zzH_C01_manywrites)
}

// zzH_C01_manywrites: a run of values written through the stream writer before a single Flush
// (the writer's buffer grows several times) is byte-identical to the appending writer's output,
// and the stream reader reads every value back, also across Release calls.
func zzH_C01_manywrites() {
	n := zzParam("COUNT")
	w, bw, out := zzStreamWriter()
	var want []byte
	var vals [][]byte
	for i := 0; i < n; i++ {
		sz := [7]int{5, 3000, 9000, 9000, 3000, 9000, 5}[(i+zzParam("unit"))%7]
		v := zzBytes("val", sz)
		vals = append(vals, v)
		zzAssert(w.WriteBinary(v) == nil, "stream writer failed")
		want = Binary.AppendBinary(want, v)
		id := int32(zzU32("i32"))
		zzAssert(w.WriteI32(id) == nil, "stream writer failed")
		want = Binary.AppendI32(want, id)
	}
	zzAssert(bw.Flush() == nil, "flush failed")
	zzAssertEqBytes(*out, want, "stream writer output differs from the appending writer after buffer growth")
	// read everything back through the stream reader over an io.Reader, releasing in between
	dr := bufiox.NewDefaultReader(&zzChunkSrc{data: want, chunk: 4096})
	r := NewBufferReader(dr)
	var strs []string
	for i := 0; i < n; i++ {
		var got []byte
		var err error
		if i%2 == 0 {
			got, err = r.ReadBinary()
		} else {
			var s string
			s, err = r.ReadString()
			strs = append(strs, s)
			got = []byte(s)
		}
		zzAssert(err == nil, "stream reader failed on a written value")
		zzAssertEqBytes(got, vals[i], "stream reader returned a different value")
		_, err = r.ReadI32()
		zzAssert(err == nil, "stream reader failed on a written i32")
		if zzBool("release") {
			zzAssert(dr.Release(nil) == nil, "Release failed")
		}
	}
	// values decoded earlier are still what they were (they must be independent copies)
	k := 0
	for i := 1; i < n; i += 2 {
		zzAssertEqStrBytes(strs[k], vals[i], "a decoded string changed after later reads / Release")
		k++
	}
	zzReach("done")
}
