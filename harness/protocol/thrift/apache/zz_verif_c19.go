//go:build verif

package apache

import (
	"bytes"
	"errors"

	"github.com/cloudwego/gopkg/bufiox"
)

func init() {
	zzRegister("zzH_C19_buffer", zzH_C19_buffer)
	zzRegister("zzH_C19_default", zzH_C19_default)
	zzRegister("zzH_C19_callbacks", zzH_C19_callbacks)
}

// zzH_C19_buffer: a buffer transport is the buffer: histories of operations on either handle.
func zzH_C19_buffer() {
	buf := &bytes.Buffer{}
	t := NewBufferTransport(buf)
	zzAssert(t.IsOpen(), "buffer transport is not open")
	var model []byte // unread bytes
	nops := zzParam("OPS")
	for i := 0; i < nops; i++ {
		switch zzPick("op", 0, 5) {
		case 0: // write through the transport
			d := zzBytes("wdata", zzPick("wlen", 0, 3))
			n, err := t.Write(d)
			zzAssert(zzAnd(err == nil, n == len(d)), "transport Write failed")
			model = append(model, d...)
		case 1: // write through the buffer
			d := zzBytes("wdata", zzPick("wlen", 0, 3))
			buf.Write(d)
			model = append(model, d...)
		case 2: // read through the transport
			p := make([]byte, zzPick("rlen", 0, 3))
			n, err := t.Read(p)
			want := len(p)
			if len(model) < want {
				want = len(model)
			}
			if len(model) == 0 && len(p) > 0 {
				zzAssert(zzAnd(n == 0, err != nil), "transport Read from an empty buffer did not report EOF")
			} else {
				zzAssert(zzAnd(err == nil, n == want), "transport Read returned a different count than the buffer holds")
				zzAssertEqBytes(p[:n], model[:n], "transport Read returned different bytes")
				model = model[n:]
			}
		case 3: // read through the buffer
			p := make([]byte, zzPick("rlen", 0, 3))
			n, _ := buf.Read(p)
			if n > 0 {
				zzAssertEqBytes(p[:n], model[:n], "buffer Read returned different bytes than were written through the transport")
			}
			model = model[n:]
		case 4:
			buf.Reset()
			model = nil
		case 5:
			zzAssert(t.Close() == nil, "Close failed")
			model = nil
		}
		zzAssert(t.RemainingBytes() == uint64(len(model)), "RemainingBytes differs from the unread length")
		zzAssert(buf.Len() == len(model), "buffer length differs from the model")
	}
	// a large write (capacity beyond 64 KiB), then Close must still empty the buffer
	if zzBool("bigWrite") {
		big := zzBytes("big", zzInt("bigLen", 60000, 70000))
		n, err := t.Write(big)
		zzAssert(zzAnd(err == nil, n == len(big)), "large Write failed")
		zzAssert(t.RemainingBytes() == uint64(len(model)+len(big)), "RemainingBytes wrong after a large write")
		zzAssert(t.Close() == nil, "Close failed")
		model = nil
		zzAssert(zzAnd(t.RemainingBytes() == 0, buf.Len() == 0), "Close did not empty a large buffer")
	}
	zzAssert(t.Flush(nil) == nil, "Flush failed")
	zzAssert(t.Open() == nil, "Open failed")
	// NewDefaultTransport on a *bytes.Buffer is the same thing
	t2 := NewDefaultTransport(buf)
	zzAssert(t2.RemainingBytes() == uint64(len(model)), "default transport over a bytes.Buffer does not report its length")
	zzReach("done")
}

type zzRW struct {
	n int
}

func (r *zzRW) Read(p []byte) (int, error)  { return 0, nil }
func (r *zzRW) Write(p []byte) (int, error) { return len(p), nil }

type zzRWLen struct {
	zzRW
}

func (r *zzRWLen) ReadableLen() int { return r.n }

// zzH_C19_default: generic transport reports the wrapped object's readable length when positive.
func zzH_C19_default() {
	n := int(zzU64("readable"))
	t := NewDefaultTransport(&zzRWLen{zzRW{n: n}})
	got := t.RemainingBytes()
	if n > 0 {
		zzAssert(got == uint64(n), "positive readable length not reported")
	} else {
		zzAssert(got == ^uint64(0), "non-positive readable length not reported as unknown")
	}
	t2 := NewDefaultTransport(&zzRW{})
	zzAssert(t2.RemainingBytes() == ^uint64(0), "object without a readable length not reported as unknown")
	zzAssert(zzAnd(t2.IsOpen(), zzAnd(t2.Open() == nil, zzAnd(t2.Close() == nil, t2.Flush(nil) == nil))), "default transport lifecycle methods fail")
	zzReach("done")
}

var zzCBErr = errors.New("zz callback result")

// zzH_C19_callbacks: registered callbacks receive exactly the arguments and their result is returned.
func zzH_C19_callbacks() {
	fnCheckTStruct, fnThriftRead, fnThriftWrite = nil, nil, nil
	v := &zzRW{n: 7}
	zzAssert(CheckTStruct(v) == errCheckTStructNotRegistered, "unregistered CheckTStruct does not yield its specific error")
	zzAssert(ThriftRead(nil, v) == errThriftReadNotRegistered, "unregistered ThriftRead does not yield its specific error")
	zzAssert(ThriftWrite(nil, v) == errThriftWriteNotRegistered, "unregistered ThriftWrite does not yield its specific error")
	fail := zzBool("fail")
	var gotV interface{}
	var gotR bufiox.Reader
	var gotW bufiox.Writer
	res := func() error {
		if fail {
			return zzCBErr
		}
		return nil
	}
	RegisterCheckTStruct(func(x interface{}) error { gotV = x; return res() })
	RegisterThriftRead(func(r bufiox.Reader, x interface{}) error { gotR, gotV = r, x; return res() })
	RegisterThriftWrite(func(w bufiox.Writer, x interface{}) error { gotW, gotV = w, x; return res() })
	rd := bufiox.NewBytesReader([]byte{1})
	var out []byte
	wr := bufiox.NewBytesWriter(&out)
	e1 := CheckTStruct(v)
	zzAssert(gotV == interface{}(v), "CheckTStruct callback received a different argument")
	gotV = nil
	e2 := ThriftRead(rd, v)
	zzAssert(zzAnd(gotV == interface{}(v), gotR == bufiox.Reader(rd)), "ThriftRead callback received different arguments")
	gotV = nil
	e3 := ThriftWrite(wr, v)
	zzAssert(zzAnd(gotV == interface{}(v), gotW == bufiox.Writer(wr)), "ThriftWrite callback received different arguments")
	if fail {
		zzAssert(zzAnd(e1 == zzCBErr, zzAnd(e2 == zzCBErr, e3 == zzCBErr)), "callback result not returned")
	} else {
		zzAssert(zzAnd(e1 == nil, zzAnd(e2 == nil, e3 == nil)), "callback result not returned")
	}
	// registering nil returns to the unregistered state
	RegisterCheckTStruct(nil)
	RegisterThriftRead(nil)
	RegisterThriftWrite(nil)
	zzAssert(CheckTStruct(v) == errCheckTStructNotRegistered, "CheckTStruct after Register(nil) does not yield its specific error")
	zzAssert(ThriftRead(rd, v) == errThriftReadNotRegistered, "ThriftRead after Register(nil) does not yield its specific error")
	zzAssert(ThriftWrite(wr, v) == errThriftWriteNotRegistered, "ThriftWrite after Register(nil) does not yield its specific error")
	fnCheckTStruct, fnThriftRead, fnThriftWrite = nil, nil, nil
	zzReach("done")
}
