//go:build verif

package bufiox

func init() {
	zzRegister("zzH_C14_bufio", zzH_C14_bufio)
}

// zzH_C14_bufio: reader/writer instances never store to package-level (shared) memory; buffers come
// from and return to the pool; consecutive instances see only their own data.
func zzH_C14_bufio() {
	zzFreeze()
	for round := 0; round < 2; round++ {
		n := zzInt("n", 1, 6000)
		data := zzBytes("data", n)
		r := NewDefaultReader(&zzConstSrc{data: data, chunk: 5000})
		out, err := r.Next(n)
		zzAssert(err == nil, "reader failed")
		if err == nil {
			zzAssertEqBytes(out, data, "a reader saw another instance's data")
		}
		zzAssert(r.Release(nil) == nil, "release failed")
		sink := &zzSink{}
		w := NewDefaultWriter(sink)
		buf, err := w.Malloc(n)
		zzAssert(err == nil, "writer failed")
		if err == nil {
			copy(buf, data)
		}
		zzAssert(w.Flush() == nil, "flush failed")
		zzAssertEqBytes(sink.got, data, "a writer flushed another instance's data")
	}
	zzReach("done")
}
