//go:build verif

package bufiox

import (
	"errors"
	"io"
)

func init() {
	zzRegister("zzH_C05_growths", zzH_C05_growths)
	zzRegister("zzH_C04_api", zzH_C04_api)
	zzRegister("zzH_C04_longfrag", zzH_C04_longfrag)
	zzRegister("zzH_C05_api", zzH_C05_api)
	zzRegister("zzH_C05_bytes", zzH_C05_bytes)
}

var zzSrcErr = errors.New("zz source failure")

// zzSrc is an io.Reader over a fixed stream. Every Read delivers a solver-chosen number of bytes
// (0..min(len(p), remaining)); the source fails (io.EOF at the end of the stream, or an injected
// error at a solver-chosen earlier position) either together with the last data or on the next call.
// The first maxCalls calls fragment symbolically; later calls deliver as much as fits.
type zzSrc struct {
	data     []byte
	pos      int
	calls    int
	maxCalls int
	failAt   int // stream position at which the source fails with zzSrcErr (len(data)+1: never)
	failed   error
}

func (s *zzSrc) Read(p []byte) (int, error) {
	s.calls++
	zzAssert(s.failed == nil, "source called again after it reported an error")
	end := len(s.data)
	endErr := io.EOF
	if s.failAt <= end {
		end = s.failAt
		endErr = zzSrcErr
	}
	rem := end - s.pos
	lim := rem
	if len(p) < lim {
		lim = len(p)
	}
	if s.calls > s.maxCalls {
		// beyond the explored fragmentation budget: deliver as much as fits, error only when dry
		if rem == 0 {
			s.failed = endErr
			return 0, endErr
		}
		copy(p, s.data[s.pos:s.pos+lim])
		s.pos += lim
		return lim, nil
	}
	m := zzInt("m", 0, lim)
	copy(p, s.data[s.pos:s.pos+m])
	s.pos += m
	if s.pos == end && (rem == 0 || zzBool("errWithData")) {
		s.failed = endErr
		return m, endErr
	}
	return m, nil
}

// zzH_C04_api: k operations on a reader from the public constructors, checked against the stream.
func zzH_C04_api() {
	S := zzInt("streamLen", 0, zzParam("S"))
	data := zzBytes("stream", S)
	var r Reader
	src := &zzSrc{data: data, maxCalls: zzParam("K"), failAt: S + 1}
	bytesBacked := zzParam("unit")%2 == 1
	if bytesBacked {
		zzMarkCaller(data, "slice given to NewBytesReader")
		r = NewBytesReader(data)
	} else {
		if zzBool("injectErr") {
			src.failAt = zzInt("failAt", 0, S)
		}
		r = NewDefaultReader(src)
	}
	P := 0        // absolute cursor
	sinceRel := 0 // consumed since the last Release
	var held []byte
	heldAt, heldOK := 0, false
	nops := zzParam("OPS")
	opseq := zzParam("unit") / 2
	for i := 0; i < nops; i++ {
		op := opseq % 5
		opseq /= 5
		n := zzInt("n", -1, zzParam("NMAX"))
		switch op {
		case 0, 1: // Next / Peek
			var out []byte
			var err error
			if op == 0 {
				out, err = r.Next(n)
			} else {
				out, err = r.Peek(n)
			}
			if err == nil {
				zzAssert(n >= 0, "negative count accepted")
				zzAssert(len(out) == n, "Next/Peek returned neither n bytes nor an error")
				if len(out) == n && n >= 0 {
					zzAssert(P+n <= S, "Next/Peek returned bytes beyond the end of the stream")
					if P+n <= S {
						zzAssertEqBytes(out, data[P:P+n], "Next/Peek bytes differ from the source stream")
						if !heldOK && n > 0 {
							held, heldAt, heldOK = out, P, true
						}
						if op == 0 {
							P += n
							sinceRel += n
						}
					}
				}
			} else {
				zzAssert(len(out) == 0, "Next/Peek returned data together with an error")
				if n < 0 {
					zzAssert(err == errNegativeCount, "negative count not reported as such")
				} else if bytesBacked {
					zzAssert(err == io.EOF, "bytes-backed reader failed with something other than io.EOF")
				} else {
					zzAssert(src.failed != nil, "reader failed although the source never reported an error")
					zzAssert(err == src.failed, "reader error is not the source's own error")
				}
			}
		case 2: // Skip
			err := r.Skip(n)
			if err == nil {
				zzAssert(n >= 0, "negative count accepted")
				zzAssert(P+n <= S, "Skip went beyond the end of the stream")
				P += n
				sinceRel += n
			} else if n >= 0 && !bytesBacked {
				zzAssert(src.failed != nil, "reader failed although the source never reported an error")
				zzAssert(err == src.failed, "reader error is not the source's own error")
			}
		case 3: // ReadBinary
			zzAssume(n >= 0)
			bs := zzBytes("dst", n)
			m, err := r.ReadBinary(bs)
			zzAssert(zzAnd(m >= 0, m <= n), "ReadBinary reported more bytes than requested")
			if m >= 0 && m <= n {
				zzAssert(P+m <= S, "ReadBinary reported bytes beyond the end of the stream")
				if P+m <= S {
					zzAssertEqBytes(bs[:m], data[P:P+m], "ReadBinary bytes differ from the source stream")
				}
				P += m
				sinceRel += m
			}
			zzAssert(zzOr(m == n, err != nil), "ReadBinary reported fewer bytes without an error")
			if err != nil && !bytesBacked {
				zzAssert(src.failed != nil, "reader failed although the source never reported an error")
			}
		case 4: // Release
			if heldOK {
				// slices handed out stay valid until Release, whatever a pool co-tenant does
				zzHavocFreed()
				zzAssertLive(held, "a handed-out slice was recycled before Release")
				zzAssertEqBytes(held, data[heldAt:heldAt+len(held)], "a handed-out slice changed before Release")
				heldOK = false
			}
			zzAssert(r.Release(nil) == nil, "Release failed")
			sinceRel = 0
		}
		zzAssert(r.ReadLen() == sinceRel, "ReadLen differs from the bytes consumed since the last Release")
	}
	if heldOK {
		zzHavocFreed()
		zzAssertLive(held, "a handed-out slice was recycled before Release")
		zzAssertEqBytes(held, data[heldAt:heldAt+len(held)], "a handed-out slice changed before Release")
	}
	// epilogue: whatever happened before, the next bytes delivered are the next bytes of the stream,
	// and if the stream still has k bytes and the source never failed early, they must be delivered
	k := zzInt("epilogue", 1, 8)
	out, err := r.Next(k)
	if err == nil {
		zzAssert(P+k <= S, "epilogue: bytes beyond the end of the stream")
		if P+k <= S && len(out) == k {
			zzAssertEqBytes(out, data[P:P+k], "epilogue: bytes lost, duplicated or reordered")
		}
	} else if P+k <= S && (bytesBacked || src.failAt >= P+k) {
		zzFail("epilogue: stream bytes were lost (reader fails although the source can still deliver them)")
	}
	zzReach("ops-done")
}

// zzConstSrc delivers exactly chunk bytes per Read (0 = empty reads without an error), forever.
type zzConstSrc struct {
	data  []byte
	pos   int
	chunk int
	calls int
}

func (s *zzConstSrc) Read(p []byte) (int, error) {
	s.calls++
	if s.pos >= len(s.data) {
		return 0, io.EOF
	}
	m := s.chunk
	if m > len(p) {
		m = len(p)
	}
	if m > len(s.data)-s.pos {
		m = len(s.data) - s.pos
	}
	copy(p, s.data[s.pos:s.pos+m])
	s.pos += m
	return m, nil
}

// zzH_C04_longfrag: long runs of tiny (or empty) reads within one operation.
func zzH_C04_longfrag() {
	S := zzParam("S")
	data := zzBytes("stream", S)
	chunk := zzPick("chunk", 0, 2)
	n := zzInt("n", 1, zzParam("NMAX"))
	zzAssume(n <= S)
	src := &zzConstSrc{data: data, chunk: chunk}
	r := NewDefaultReader(src)
	op := zzPick("op", 0, 2)
	switch op {
	case 0:
		out, err := r.Next(n)
		zzAssert(zzOr(err != nil, len(out) == n), "Next returned neither n bytes nor an error")
		if chunk > 0 {
			zzAssert(err == nil, "Next failed although every read of the source made progress")
			if err == nil && len(out) == n {
				zzAssertEqBytes(out, data[:n], "Next bytes differ from the source stream")
			}
		}
	case 1:
		err := r.Skip(n)
		if chunk > 0 {
			zzAssert(err == nil, "Skip failed although every read of the source made progress")
		} else {
			zzAssert(err != nil, "Skip succeeded although the source delivered nothing")
		}
		zzAssert(zzOr(err != nil, r.ReadLen() == n), "Skip reported success without consuming n bytes")
	case 2:
		bs := zzBytes("dst", n)
		m, err := r.ReadBinary(bs)
		zzAssert(zzOr(m == n, err != nil), "ReadBinary reported fewer bytes without an error")
		zzAssert(m <= n, "ReadBinary reported more bytes than requested")
		if chunk > 0 {
			zzAssert(zzAnd(err == nil, m == n), "ReadBinary failed although every read of the source made progress")
		}
	}
	zzReach("done")
}

// ---------------------------------------------------------------- writer

type zzSink struct {
	got     []byte
	writes  int
	failAt  int // fail the failAt-th write (1-based); 0 = never
	errSent bool
}

var zzSinkErr = errors.New("zz sink failure")

func (s *zzSink) Write(p []byte) (int, error) {
	s.writes++
	zzAssert(!s.errSent, "sink called again after it reported an error")
	if s.failAt == s.writes {
		s.errSent = true
		return 0, zzSinkErr
	}
	s.got = append(s.got, p...)
	return len(p), nil
}

// zzH_C05_api: Malloc / WriteBinary / Flush sequences against an io.Writer sink.
func zzH_C05_api() {
	sink := &zzSink{failAt: zzPick("failAt", 0, 2)}
	w := NewDefaultWriter(sink)
	var regions [][]byte // handed-out regions since the last flush, in order
	var lazy []bool
	var expectAll []byte // everything that must have reached the sink
	pendingLen := 0
	failed := false
	nops := zzParam("OPS")
	opseq := zzParam("unit")
	for i := 0; i < nops; i++ {
		op := opseq % 3
		opseq /= 3
		switch op {
		case 0: // Malloc
			n := zzInt("n", -1, zzParam("NMAX"))
			buf, err := w.Malloc(n)
			if failed {
				zzAssert(err == zzSinkErr, "sink error does not stick (Malloc)")
				continue
			}
			if n < 0 {
				zzAssert(err != nil, "negative count accepted")
				continue
			}
			zzAssert(err == nil, "Malloc failed")
			zzAssert(len(buf) == n, "Malloc returned a region of the wrong length")
			if err != nil || len(buf) != n {
				return
			}
			for _, q := range regions {
				zzAssert(zzDisjoint(q, buf), "two regions handed out before Flush overlap")
			}
			fillLater := zzBool("lazy")
			if !fillLater {
				copy(buf, zzBytes("fill", n))
			}
			regions = append(regions, buf)
			lazy = append(lazy, fillLater)
			pendingLen += n
		case 1: // WriteBinary
			n := zzInt("wn", 0, zzParam("NMAX"))
			payload := zzBytes("payload", n)
			zzMarkCaller(payload, "payload passed to WriteBinary")
			m, err := w.WriteBinary(payload)
			if failed {
				zzAssert(err == zzSinkErr, "sink error does not stick (WriteBinary)")
				continue
			}
			zzAssert(zzAnd(err == nil, m == n), "WriteBinary did not accept the whole payload")
			regions = append(regions, payload)
			lazy = append(lazy, false)
			pendingLen += n
		case 2: // Flush
			for j, q := range regions {
				if lazy[j] {
					zzAssertLive(q, "a region was recycled before Flush")
					copy(q, zzBytes("lateFill", len(q)))
				}
			}
			var expect []byte
			for _, q := range regions {
				expect = append(expect, q...)
			}
			before := len(sink.got)
			err := w.Flush()
			if failed {
				zzAssert(err == zzSinkErr, "sink error does not stick (Flush)")
				continue
			}
			if sink.errSent {
				zzAssert(err == zzSinkErr, "sink error not returned by Flush")
				failed = true
				continue
			}
			zzAssert(err == nil, "Flush failed although the sink accepted the data")
			zzAssert(len(sink.got)-before == len(expect), "Flush passed a different number of bytes to the sink")
			if len(sink.got)-before == len(expect) {
				zzAssertEqBytes(sink.got[before:], expect, "bytes passed to the sink differ from what was written")
			}
			expectAll = append(expectAll, expect...)
			regions, lazy, pendingLen = nil, nil, 0
			zzAssert(w.WrittenLen() == 0, "WrittenLen is not zero after Flush")
			zzReach("flushed")
		}
		if !failed {
			zzAssert(w.WrittenLen() == pendingLen, "WrittenLen differs from the unflushed byte count")
		}
	}
	zzReach("ops-done")
}

// zzH_C05_bytes: a bytes-backed writer over nil / empty / partly filled / full initial slices.
func zzH_C05_bytes() {
	unit := zzParam("unit")
	var target []byte
	switch unit % 4 {
	case 0: // nil
	case 1: // empty with spare capacity
		target = zzBytesCap("init", 0, zzInt("initCap", 1, 8))
	case 2: // partly filled
		il := zzInt("initLen", 1, 4)
		target = zzBytesCap("init", il, il+zzInt("spare", 1, 4))
	case 3: // full
		il := zzInt("initLen", 1, 4)
		target = zzBytesCap("init", il, il)
	}
	opbits := unit / 4
	initial := append([]byte(nil), target...)
	w := NewBytesWriter(&target)
	var written []byte
	var lazyBuf, lazyFill [][]byte
	nops := zzParam("OPS")
	for i := 0; i < nops; i++ {
		isMalloc := opbits%2 == 1
		opbits /= 2
		if isMalloc {
			n := zzInt("n", 0, zzParam("NMAX"))
			buf, err := w.Malloc(n)
			zzAssert(zzAnd(err == nil, len(buf) == n), "Malloc failed")
			if err != nil || len(buf) != n {
				return
			}
			fill := zzBytes("fill", n)
			if zzBool("lazyFill") {
				lazyBuf, lazyFill = append(lazyBuf, buf), append(lazyFill, fill)
			} else {
				copy(buf, fill)
			}
			written = append(written, fill...)
		} else {
			n := zzInt("wn", 0, zzParam("NMAX"))
			payload := zzBytes("payload", n)
			m, err := w.WriteBinary(payload)
			zzAssert(zzAnd(err == nil, m == n), "WriteBinary did not accept the whole payload")
			written = append(written, payload...)
		}
		zzAssert(w.WrittenLen() == len(initial)+len(written), "WrittenLen differs from initial length plus written bytes")
	}
	for i := range lazyBuf {
		copy(lazyBuf[i], lazyFill[i]) // regions may be filled any time before Flush
	}
	zzAssert(w.Flush() == nil, "Flush failed")
	zzAssert(len(target) == len(initial)+len(written), "target length differs from initial + written")
	if len(target) == len(initial)+len(written) {
		zzAssertEqBytes(target[:len(initial)], initial, "target no longer starts with the initial contents")
		zzAssertEqBytes(target[len(initial):], written, "target does not end with the written bytes")
	}
	zzReach("flushed")
}

var zzGrowSizes = [4]int{1000, 4000, 9000, 30000}

// zzH_C05_growths: many regions of concrete sizes within one flush window (0..4 buffer growths),
// filled lazily in reverse order; both the pool-backed and the bytes-backed writer.
func zzH_C05_growths() {
	n := zzParam("REGIONS")
	sink := &zzSink{}
	var target []byte
	var w Writer
	bytesBacked := zzParam("unit")%2 == 1
	if bytesBacked {
		w = NewBytesWriter(&target)
	} else {
		w = NewDefaultWriter(sink)
	}
	var regions, fills [][]byte
	var want []byte
	first := zzGrowSizes[(zzParam("unit")/2)%4]
	for i := 0; i < n; i++ {
		sz := first
		if i > 0 {
			sz = zzGrowSizes[zzPick("size", 0, 3)]
		}
		buf, err := w.Malloc(sz)
		zzAssert(zzAnd(err == nil, len(buf) == sz), "Malloc failed")
		if err != nil || len(buf) != sz {
			return
		}
		f := zzBytes("fill", sz)
		regions, fills = append(regions, buf), append(fills, f)
		want = append(want, f...)
	}
	for i := n - 1; i >= 0; i-- {
		copy(regions[i], fills[i])
	}
	zzAssert(w.Flush() == nil, "Flush failed")
	if bytesBacked {
		zzAssertEqBytes(target, want, "bytes-backed writer: target differs from the regions' contents")
	} else {
		zzAssertEqBytes(sink.got, want, "flushed bytes differ from the regions' contents")
	}
	zzReach("flushed")
}
