//go:build verif

package bufiox

func init() {
	zzRegister("zzH_C09_retain", zzH_C09_retain)
	zzRegister("zzH_C09_caller", zzH_C09_caller)
	zzRegister("zzH_C09_writer", zzH_C09_writer)
}

// zzH_C09_retain: slices handed out earlier keep their contents across later reads that force the
// internal buffer to grow (several times), with a pool co-tenant scribbling over everything that
// was recycled; after Release the reader never touches recycled buffers again.
func zzH_C09_retain() {
	S := zzParam("S")
	data := zzBytes("stream", S)
	src := &zzSrc{data: data, maxCalls: zzParam("K"), failAt: S + 1}
	r := NewDefaultReader(src)
	n1 := zzInt("n1", 1, 64)
	a, err := r.Next(n1)
	zzAssume(err == nil)
	n2 := zzInt("n2", 1, zzParam("NMAX"))
	b, err := r.Peek(n2) // may grow the buffer
	zzAssume(err == nil)
	zzHavocFreed()
	zzAssertLive(a, "a handed-out slice was recycled before Release")
	zzAssertLive(b, "a handed-out slice was recycled before Release")
	zzAssertEqBytes(a, data[:n1], "first slice changed after a later read grew the buffer")
	n3 := zzInt("n3", 1, zzParam("NMAX"))
	c, err := r.Next(n3) // may grow again
	zzAssume(err == nil)
	zzHavocFreed()
	zzAssertLive(a, "a handed-out slice was recycled before Release")
	zzAssertLive(b, "a handed-out slice was recycled before Release")
	zzAssertLive(c, "a handed-out slice was recycled before Release")
	zzAssertEqBytes(a, data[:n1], "first slice changed after the buffer grew twice")
	zzAssertEqBytes(b, data[n1:n1+n2], "peeked slice changed after a later read")
	zzAssertEqBytes(c, data[n1:n1+n3], "latest slice differs from the stream")
	zzAssert(r.Release(nil) == nil, "Release failed")
	zzHavocFreed()
	// after Release the reader keeps working and delivers the rest of the stream
	n4 := zzInt("n4", 1, 64)
	d, err := r.Next(n4)
	if err == nil {
		zzAssertEqBytes(d, data[n1+n3:n1+n3+n4], "bytes after Release differ from the stream")
	}
	zzAssert(r.Release(nil) == nil, "second Release failed")
	zzReach("done")
}

// zzH_C09_caller: memory owned by the caller (the slice given to a bytes reader) is never written
// nor recycled into the pool, whatever its capacity.
func zzH_C09_caller() {
	n := zzInt("n", 0, 40)
	c := [4]int{0, 3, 16, 64}[zzPick("spare", 0, 3)] // power-of-two and other capacities
	data := zzBytesCap("data", n, n+c)
	zzMarkCaller(data, "slice given to NewBytesReader")
	snapshot := append([]byte(nil), data...)
	r := NewBytesReader(data)
	nops := zzParam("OPS")
	pos := 0
	for i := 0; i < nops; i++ {
		k := zzInt("k", 0, 80)
		switch zzPick("op", 0, 3) {
		case 0:
			out, err := r.Next(k)
			if err == nil {
				zzAssertEqBytes(out, snapshot[pos:pos+k], "bytes reader returned different bytes")
				pos += k
			}
		case 1:
			_, _ = r.Peek(k)
		case 2:
			dst := zzBytes("dst", k)
			m, _ := r.ReadBinary(dst)
			pos += m
		case 3:
			zzAssert(r.Release(nil) == nil, "Release failed")
		}
	}
	zzAssert(r.Release(nil) == nil, "Release failed")
	zzAssertLive(data, "the caller's slice was recycled into the pool")
	zzAssertEqBytes(data, snapshot, "the caller's slice was modified")
	zzReach("done")
}

// zzH_C09_writer: regions stay writable and disjoint across growth; after Flush nothing recycled is
// touched; payloads passed to WriteBinary are only read.
func zzH_C09_writer() {
	sink := &zzSink{}
	w := NewDefaultWriter(sink)
	n1 := zzInt("n1", 1, 64)
	a, err := w.Malloc(n1)
	zzAssume(err == nil)
	n2 := zzInt("n2", 1, zzParam("NMAX"))
	b, err := w.Malloc(n2) // may grow
	zzAssume(err == nil)
	pl := zzBytes("payload", zzInt("pn", 0, zzParam("NMAX")))
	zzMarkCaller(pl, "payload passed to WriteBinary")
	_, err = w.WriteBinary(pl)
	zzAssume(err == nil)
	zzHavocFreed()
	zzAssertLive(a, "a region was recycled before Flush")
	zzAssertLive(b, "a region was recycled before Flush")
	zzAssert(zzDisjoint(a, b), "regions overlap")
	fa, fb := zzBytes("fa", n1), zzBytes("fb", n2)
	copy(b, fb) // fill in reverse order, late
	copy(a, fa)
	zzAssert(w.Flush() == nil, "Flush failed")
	want := append(append(append([]byte(nil), fa...), fb...), pl...)
	zzAssertEqBytes(sink.got, want, "flushed bytes differ from the regions' contents")
	zzHavocFreed()
	// a second round after Flush must not touch anything that was recycled
	c, err := w.Malloc(zzInt("n3", 1, 64))
	zzAssume(err == nil)
	fc := zzBytes("fc", len(c))
	copy(c, fc)
	zzAssert(w.Flush() == nil, "second Flush failed")
	zzAssertEqBytes(sink.got[len(want):], fc, "second flush differs")
	zzReach("done")
}
