//go:build verif

package strmap

func init() {
	zzRegister("zzH_C14_get", zzH_C14_get)
}

// zzH_C14_get: a loaded map is only read by Get / Len / Item: with the whole map frozen (shared
// between goroutines) no lookup performs a store, so any number of concurrent readers is race-free.
func zzH_C14_get() {
	n := zzParam("unit")
	kk := zzKeys(n)
	vv := make([]int, n)
	sv := make([]string, n)
	for i := range vv {
		vv[i] = int(int32(zzU32("val")))
		sv[i] = zzString("sval", zzPick("svallen", 0, 1))
	}
	m := NewFromSlice(kk, vv)
	sm := NewStr2StrFromSlice(kk, sv)
	zzFreeze()
	rounds := 2
	if n >= 2 {
		rounds = 1
	}
	for round := 0; round < rounds; round++ {
		probe := zzString("probe", zzPick("probelen", 0, 2))
		got, ok := m.Get(probe)
		var sgot string
		var sok bool
		if n < 2 {
			sgot, sok = sm.Get(probe)
		} else if ok {
			sgot, sok = sv[0], true
			for i, k := range kk {
				if zzEqStr(probe, k) {
					sgot = sv[i]
				}
			}
		}
		found := false
		for i, k := range kk {
			if zzEqStr(probe, k) {
				found = true
				zzAssert(zzAnd(ok, got == vv[i]), "concurrent-style lookup returns the wrong value")
				zzAssert(sok, "concurrent-style Str2Str lookup misses a loaded key")
				zzAssertEqStr(sgot, sv[i], "concurrent-style Str2Str lookup returns the wrong value")
			}
		}
		if !found {
			zzAssert(zzAnd(!ok, !sok), "concurrent-style lookup reports an absent key present")
		}
		zzAssert(zzAnd(m.Len() == n, sm.Len() == n), "Len changed under lookups")
		if n > 0 {
			m.Item(0)
		}
	}
	zzReach("done")
}
