//go:build verif

package strmap

func init() {
	zzRegister("zzH_C07_strmap", zzH_C07_strmap)
	zzRegister("zzH_C07_str2str", zzH_C07_str2str)
}

type zzPoint struct {
	X int32
	Y uint16
}

// zzKeys draws n pairwise distinct keys of length 0..2 with symbolic bytes.
func zzKeys(n int) []string {
	kk := make([]string, 0, n)
	for i := 0; i < n; i++ {
		k := zzString("key", zzPick("keylen", 0, zzParam("KL")))
		for _, o := range kk {
			zzAssume(!zzEqStr(k, o))
		}
		kk = append(kk, k)
	}
	return kk
}

func zzCheckIntMap(m *StrMap[int], kk []string, vv []int, probe string, tag string) {
	got, ok := m.Get(probe)
	found := false
	for i, k := range kk {
		if zzEqStr(probe, k) {
			found = true
			zzAssert(ok, "a loaded key is reported absent")
			zzAssert(got == vv[i], "a loaded key returns the wrong value")
		}
	}
	if !found {
		zzAssert(!ok, "a key that was not loaded is reported present")
		zzAssert(got == 0, "an absent key returns a non-zero value")
	}
	zzAssert(m.Len() == len(kk), "Len differs from the number of loaded pairs")
	if m.Len() != len(kk) {
		return
	}
	// item enumeration is a permutation of the loaded pairs
	for i := 0; i < len(kk); i++ {
		ik, iv := m.Item(i)
		hit := false
		for j, k := range kk {
			if zzEqStr(ik, k) {
				hit = true
				zzAssert(iv == vv[j], "Item returns a key with the wrong value")
			}
		}
		zzAssert(hit, "Item returns a key that was not loaded")
		for i2 := 0; i2 < i; i2++ {
			k2, _ := m.Item(i2)
			zzAssert(!zzEqStr(ik, k2), "Item returns the same key twice")
		}
	}
	for i := range kk {
		g, ok2 := m.Get(kk[i])
		zzAssert(zzAnd(ok2, g == vv[i]), "Get of a loaded key fails")
	}
}

func zzH_C07_strmap() {
	n := zzParam("unit") % zzParam("NK")
	kk := zzKeys(n)
	vv := make([]int, n)
	for i := range vv {
		vv[i] = int(int32(zzU32("val")))
	}
	probe := zzString("probe", zzPick("probelen", 0, zzParam("KL")+1))
	m := New[int]()
	mode := zzParam("unit") / zzParam("NK")
	if mode == 0 {
		// a never-loaded map answers absent
		g, ok := m.Get(probe)
		zzAssert(zzAnd(!ok, g == 0), "a never-loaded map does not report the key absent")
		zzAssert(m.Len() == 0, "a never-loaded map has a non-zero Len")
	}
	if mode == 2 && n <= 2 {
		gm := map[string]int{}
		for i := range kk {
			gm[kk[i]] = vv[i]
		}
		zzAssert(m.LoadFromMap(gm) == nil, "LoadFromMap failed")
	} else {
		zzAssert(m.LoadFromSlice(kk, vv) == nil, "LoadFromSlice failed")
	}
	zzCheckIntMap(m, kk, vv, probe, "first load")
	zzReach("loaded")
	if mode == 1 {
		// a failed load (mismatched lengths) changes nothing
		err := m.LoadFromSlice(append(append([]string(nil), kk...), "x"), vv)
		zzAssert(err != nil, "a load with mismatched slice lengths succeeded")
		zzCheckIntMap(m, kk, vv, probe, "after failed load")
		// reload the same instance with a second, independent key set
		n2 := zzParam("n2")
		kk2 := zzKeys(n2)
		vv2 := make([]int, n2)
		for i := range vv2 {
			vv2[i] = int(int32(zzU32("val2")))
		}
		zzAssert(m.LoadFromSlice(kk2, vv2) == nil, "reload failed")
		zzCheckIntMap(m, kk2, vv2, probe, "after reload")
		// shrink the same instance to empty: every key is absent again
		zzAssert(m.LoadFromSlice(nil, nil) == nil, "reload with no pairs failed")
		zzCheckIntMap(m, nil, nil, probe, "after empty reload")
		if n > 0 {
			g, ok := m.Get(kk[0])
			zzAssert(zzAnd(!ok, g == 0), "a key loaded earlier is still present after an empty reload")
		}
		zzReach("reloaded")
	}
	if mode == 3 {
		// struct values
		pv := make([]zzPoint, n)
		for i := range pv {
			pv[i] = zzPoint{X: int32(zzU32("px")), Y: zzU16("py")}
		}
		pm := NewFromSlice(kk, pv)
		g, ok := pm.Get(probe)
		found := false
		for i, k := range kk {
			if zzEqStr(probe, k) {
				found = true
				zzAssert(zzAnd(ok, zzAnd(g.X == pv[i].X, g.Y == pv[i].Y)), "struct-valued map returns the wrong value")
			}
		}
		if !found {
			zzAssert(zzAnd(!ok, zzAnd(g.X == 0, g.Y == 0)), "struct-valued map reports an absent key present")
		}
	}
}

func zzH_C07_str2str() {
	n := zzParam("unit") % zzParam("NK")
	kk := zzKeys(n)
	vv := make([]string, n)
	for i := range vv {
		vv[i] = zzString("sval", zzPick("svallen", 0, zzParam("VL")))
	}
	probe := zzString("probe", zzPick("probelen", 0, zzParam("KL")+1))
	sm := NewStr2Str()
	mode := zzParam("unit") / zzParam("NK")
	if mode == 0 {
		g, ok := sm.Get(probe)
		zzAssert(zzAnd(!ok, len(g) == 0), "a never-loaded Str2Str does not report the key absent")
	}
	check := func(kk, vv []string) {
		g, ok := sm.Get(probe)
		found := false
		for i, k := range kk {
			if zzEqStr(probe, k) {
				found = true
				zzAssert(ok, "a loaded key is reported absent (Str2Str)")
				zzAssertEqStr(g, vv[i], "a loaded key returns the wrong string")
			}
		}
		if !found {
			zzAssert(zzAnd(!ok, len(g) == 0), "a key that was not loaded is reported present (Str2Str)")
		}
		zzAssert(sm.Len() == len(kk), "Str2Str.Len differs from the number of loaded pairs")
	}
	if mode == 2 && n <= 2 {
		gm := map[string]string{}
		for i := range kk {
			gm[kk[i]] = vv[i]
		}
		zzAssert(sm.LoadFromMap(gm) == nil, "LoadFromMap failed")
	} else {
		zzAssert(sm.LoadFromSlice(kk, vv) == nil, "LoadFromSlice failed")
	}
	check(kk, vv)
	zzReach("loaded")
	if mode == 1 {
		// a failed load (mismatched lengths, different values) changes nothing
		badVals := []string{zzString("badval", 2)}
		if n == 1 {
			badVals = nil
		}
		zzAssert(sm.LoadFromSlice(append(append([]string(nil), kk...), "x"), append(badVals, "y", "z")[:n]) != nil, "a load with mismatched slice lengths succeeded")
		check(kk, vv)
		n2 := zzParam("n2")
		kk2 := zzKeys(n2)
		vv2 := make([]string, n2)
		for i := range vv2 {
			vv2[i] = zzString("sval2", zzPick("svallen2", 0, zzParam("VL")))
		}
		zzAssert(sm.LoadFromSlice(kk2, vv2) == nil, "reload failed")
		check(kk2, vv2)
		zzAssert(sm.LoadFromSlice(nil, nil) == nil, "reload with no pairs failed")
		check(nil, nil)
		if n > 0 {
			g, ok := sm.Get(kk[0])
			zzAssert(zzAnd(!ok, len(g) == 0), "a key loaded earlier is still present after an empty reload (Str2Str)")
		}
		zzReach("reloaded")
	}
}
