//go:build verif

package unsafex

func init() {
	zzRegister("zzH_C20_conv", zzH_C20_conv)
}

// zzH_C20_conv: zero-copy conversions keep content and length, share memory, expose no capacity.
func zzH_C20_conv() {
	// []byte -> string, from a sub-slice with spare capacity
	maxLen, maxStr := 40, 40
	if zzParam("HUGE") == 1 {
		maxLen, maxStr = 1<<20, 1<<31
	}
	l := zzInt("len", 0, maxLen)
	c := zzInt("cap", l, 2*maxLen+24)
	base := zzBytesCap("b", l, c)
	lo := zzInt("lo", 0, l)
	hi := zzInt("hi", lo, l)
	sub := base[lo:hi]
	s := BinaryToString(sub)
	zzAssert(len(s) == len(sub), "BinaryToString changed the length")
	zzAssertEqStrBytes(s, sub, "BinaryToString changed the content")
	if len(sub) > 0 {
		zzAssert(zzSameMemStr(sub, s), "BinaryToString copied instead of sharing memory")
		zzReach("shared-b2s")
	}
	var nilb []byte
	zzAssert(len(BinaryToString(nilb)) == 0, "BinaryToString(nil) is not empty")
	zzAssert(len(BinaryToString(base[:0])) == 0, "BinaryToString(empty) is not empty")

	// string -> []byte, from a substring of a larger string
	n := zzInt("slen", 0, maxStr)
	str := zzString("s", n)
	lo2 := zzInt("lo2", 0, n)
	hi2 := zzInt("hi2", lo2, n)
	ss := str[lo2:hi2]
	bs := StringToBinary(ss)
	zzAssert(len(bs) == len(ss), "StringToBinary changed the length")
	zzAssert(cap(bs) == len(bs), "StringToBinary exposes capacity beyond the string")
	zzAssertEqStrBytes(ss, bs, "StringToBinary changed the content")
	if len(ss) > 0 {
		zzAssert(zzSameMemStr(bs, ss), "StringToBinary copied instead of sharing memory")
		zzReach("shared-s2b")
	}
	zzAssert(len(StringToBinary("")) == 0, "StringToBinary(\"\") is not empty")
	zzReach("done")
}
